module verifharness

go 1.20

require (
	github.com/Workiva/frugal v0.0.0
	github.com/Workiva/frugal/lib/go v0.0.0
	github.com/apache/thrift v0.19.0
	github.com/go-stomp/stomp v2.1.4+incompatible
	github.com/nats-io/nats-server/v2 v2.10.11
	github.com/nats-io/nats.go v1.33.1
	github.com/sirupsen/logrus v1.9.3
)

require (
	github.com/klauspost/compress v1.17.6 // indirect
	github.com/minio/highwayhash v1.0.2 // indirect
	github.com/nats-io/jwt/v2 v2.5.3 // indirect
	github.com/nats-io/nkeys v0.4.7 // indirect
	github.com/nats-io/nuid v1.0.1 // indirect
	golang.org/x/crypto v0.19.0 // indirect
	golang.org/x/mod v0.15.0 // indirect
	golang.org/x/sys v0.17.0 // indirect
	golang.org/x/time v0.5.0 // indirect
	golang.org/x/tools v0.18.0 // indirect
	gopkg.in/yaml.v2 v2.4.0 // indirect
)

replace github.com/Workiva/frugal => /repo

replace github.com/Workiva/frugal/lib/go => /repo/lib/go
