// buildcheck: C19, circumstance "proc = shared" of Build.tla.  Compiles one IDL file for a sequence of generator
// specifications inside ONE process through compiler.Compile (what the CLI does for several file arguments and what
// programs embedding the compiler do), each into a directory of its own.
package main

import (
	"flag"
	"fmt"
	"os"
	"path/filepath"
	"strings"

	"github.com/Workiva/frugal/compiler"
)

func main() {
	file := flag.String("file", "", "absolute path of the IDL file")
	out := flag.String("out", "", "output root; compilation k goes to <out>/<k>")
	gens := flag.String("gens", "", "generator specifications separated by ';' in the order to run them")
	flag.Parse()
	for k, g := range strings.Split(*gens, ";") {
		func() {
			defer func() {
				if r := recover(); r != nil {
					fmt.Printf("compilation %d (-gen %s) panicked: %v\n", k, g, r)
					os.Exit(3)
				}
			}()
			err := compiler.Compile(compiler.Options{File: *file, Gen: g, Out: filepath.Join(*out, fmt.Sprint(k)), Delim: ".", Recurse: true})
			if err != nil {
				fmt.Printf("compilation %d (-gen %s) failed: %v\n", k, g, err)
				os.Exit(3)
			}
		}()
	}
}
