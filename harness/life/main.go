// Command life is the conformance driver of the LifeAbs / AdapterLife
// specifications (C15): it replays TLC histories of open / fail / reopen /
// close through the real adapter transport (faultio underneath, cut points
// rotating over every byte offset of a multi-frame stream), comparing the
// projected user-visible state after every step, and runs the gate-steered
// races between a user Close and the read loop.
package main

import (
	"bufio"
	"encoding/json"
	"errors"
	"flag"
	"fmt"
	"io"
	"math/rand"
	"os"
	"reflect"
	"runtime"
	"strings"
	"sync"
	"time"

	frugal "github.com/Workiva/frugal/lib/go"
	"github.com/apache/thrift/lib/go/thrift"
	"github.com/sirupsen/logrus"

	"verifharness/internal/brokers"
	"verifharness/internal/faultio"
	"verifharness/internal/sched"
	"verifharness/internal/wire"
)

type CB struct {
	Cb string `json:"cb"`
	N  int    `json:"n"`
	W  int    `json:"w"`
}

type Post struct {
	Open  bool     `json:"open"`
	Gen   int      `json:"gen"`
	Cause []string `json:"cause"`
	Alive bool     `json:"alive"`
	Log   []CB     `json:"log"`
	Res   string   `json:"res"`
}

type Step struct {
	Op   string `json:"op"`
	Kind string `json:"kind"`
	K    int    `json:"k"`
	Post Post   `json:"post"`
	// filled by the driver for the replay file
	Cut int `json:"cut,omitempty"`
}

type Violation struct {
	Key    string      `json:"key"`
	Text   string      `json:"text"`
	Replay interface{} `json:"replay"`
}

type Results struct {
	Mode       string         `json:"mode"`
	Runs       int            `json:"runs"`
	Steps      int            `json:"steps"`
	Faults     int            `json:"faults"`
	CutOffsets map[int]int    `json:"-"`
	CutsSeen   int            `json:"cut_offsets_covered"`
	CutsTotal  int            `json:"cut_offsets_total"`
	Kinds      map[string]int `json:"fault_kinds"`
	Violations []Violation    `json:"violations"`
	Notes      []string       `json:"notes"`
	Samples    []interface{}  `json:"samples"`
	TraceRuns  int            `json:"trace_runs"`
}

var res = Results{CutOffsets: map[int]int{}, Kinds: map[string]int{}}

func violate(key, text string, replay interface{}) {
	res.Violations = append(res.Violations, Violation{key, text, replay})
}

// ---- logging monitor: BaseFTransportMonitor policy, every callback recorded ----

type logMonitor struct {
	base *frugal.BaseFTransportMonitor
	mu   sync.Mutex
	log  []CB
	tr   frugal.FTransport
	gens *gens
	rig  *rig
}

func ms(d time.Duration) int { return int(d / time.Millisecond) }

func (m *logMonitor) add(cb CB) { m.mu.Lock(); m.log = append(m.log, cb); m.mu.Unlock() }
func (m *logMonitor) OnClosedCleanly() {
	m.add(CB{"cleanly", 0, 0})
	m.base.OnClosedCleanly()
}
func (m *logMonitor) OnClosedUncleanly(cause error) (bool, time.Duration) {
	m.add(CB{"uncleanly", 0, 0})
	return m.base.OnClosedUncleanly(cause)
}
func (m *logMonitor) OnReopenFailed(prev uint, wait time.Duration) (bool, time.Duration) {
	m.add(CB{"reopenfailed", int(prev), ms(wait)})
	return m.base.OnReopenFailed(prev, wait)
}
func (m *logMonitor) OnReopenSucceeded() {
	m.gens.capture(m.tr)
	if m.rig != nil {
		m.rig.waitReader()
	}
	m.add(CB{"reopened", 0, 0})
	m.base.OnReopenSucceeded()
}
func (m *logMonitor) snapshot() []CB {
	m.mu.Lock()
	defer m.mu.Unlock()
	return append([]CB(nil), m.log...)
}

// ---- per-generation Closed() channels ----

type gens struct {
	mu   sync.Mutex
	chs  []<-chan error
	vals [][]string
	done []bool
}

func (g *gens) capture(tr frugal.FTransport) {
	ch := tr.Closed()
	g.mu.Lock()
	g.chs = append(g.chs, ch)
	g.vals = append(g.vals, nil)
	g.done = append(g.done, false)
	g.mu.Unlock()
}

// drain reads whatever is available on every generation's channel (never blocks).
func (g *gens) drain() {
	g.mu.Lock()
	defer g.mu.Unlock()
	for i, ch := range g.chs {
		for !g.done[i] {
			select {
			case v, ok := <-ch:
				if !ok {
					g.done[i] = true
				} else if v == nil {
					g.vals[i] = append(g.vals[i], "nil")
				} else {
					g.vals[i] = append(g.vals[i], "err")
				}
				continue
			default:
			}
			break
		}
	}
}

func (g *gens) causes(n int) ([]string, string) {
	g.drain()
	g.mu.Lock()
	defer g.mu.Unlock()
	out := make([]string, n)
	problem := ""
	for i := range out {
		out[i] = "none"
		if i < len(g.vals) {
			switch len(g.vals[i]) {
			case 0:
				if g.done[i] {
					out[i] = "closed-without-value"
				}
			case 1:
				out[i] = g.vals[i][0]
			default:
				out[i] = fmt.Sprint(g.vals[i])
				problem = fmt.Sprintf("generation %d published %d close causes %v", i+1, len(g.vals[i]), g.vals[i])
			}
		}
	}
	return out, problem
}

// ---- calls with a deadline (a deadlock never returns) ----

var errHang = errors.New("call did not return within 5 s")

func withDeadline(f func() error) error {
	c := make(chan error, 1)
	go func() { c <- f() }()
	select {
	case e := <-c:
		return e
	case <-time.After(5 * time.Second):
		return errHang
	}
}

func classifyOpen(err error) string {
	if err == nil {
		return "ok"
	}
	if err == errHang {
		return "HANG"
	}
	var te thrift.TTransportException
	if errors.As(err, &te) && te.TypeId() == frugal.TRANSPORT_EXCEPTION_ALREADY_OPEN {
		return "ALREADY_OPEN"
	}
	if errors.Is(err, faultio.ErrInjected) {
		return "openerr"
	}
	return "error:" + err.Error()
}

func classifyClose(err error) string {
	if err == nil {
		return "closed"
	}
	if err == errHang {
		return "HANG"
	}
	var te thrift.TTransportException
	if errors.As(err, &te) && te.TypeId() == frugal.TRANSPORT_EXCEPTION_NOT_OPEN {
		return "NOT_OPEN"
	}
	if errors.Is(err, faultio.ErrInjected) {
		return "closeerr"
	}
	return "error:" + err.Error()
}

// ---- the inbound stream that gets cut ----

var stream []byte
var frameEnds []int

func init() {
	for i := 0; i < 3; i++ {
		f := wire.OpFrame(uint64(1)<<50+uint64(i), []byte(fmt.Sprintf("payload-%d", i)))
		stream = append(stream, f...)
		frameEnds = append(frameEnds, len(stream))
	}
}

type config struct {
	MaxAttempts int  `json:"max_attempts"`
	InitialWait int  `json:"initial_wait_ms"`
	MaxWait     int  `json:"max_wait_ms"`
	WithMonitor bool `json:"with_monitor"`
}

type rig struct {
	pipe *faultio.Pipe
	tr   frugal.FTransport
	mon  *logMonitor
	g    *gens
}

func newRig(cfg config) *rig {
	r := &rig{pipe: faultio.New(), g: &gens{}}
	r.tr = frugal.NewAdapterTransport(r.pipe)
	if cfg.WithMonitor {
		r.mon = &logMonitor{base: &frugal.BaseFTransportMonitor{MaxReopenAttempts: uint(cfg.MaxAttempts),
			InitialWait: time.Duration(cfg.InitialWait) * time.Millisecond, MaxWait: time.Duration(cfg.MaxWait) * time.Millisecond},
			tr: r.tr, gens: r.g, rig: r}
		r.tr.SetMonitor(r.mon)
	}
	return r
}

// waitReader waits until the read loop started by Open is blocked in its first read: the histories
// of LifeAbs take every step to quiescence (AdapterLife.StartAtomic).
func (r *rig) waitReader() {
	for dl := time.Now().Add(2 * time.Second); time.Now().Before(dl) && r.pipe.Waiters() == 0; {
		time.Sleep(50 * time.Microsecond)
	}
}

type proj struct {
	Open  string   `json:"open"`
	Gen   int      `json:"gen"`
	Cause []string `json:"cause"`
	Log   []CB     `json:"log"`
}

func (r *rig) project(n int) (proj, string) {
	var p proj
	open := false
	if err := withDeadline(func() error { open = r.tr.IsOpen(); return nil }); err == errHang {
		p.Open = "HANG"
	} else {
		p.Open = fmt.Sprint(open)
	}
	p.Gen = r.pipe.OpenOKCount()
	var problem string
	p.Cause, problem = r.g.causes(n)
	if r.mon != nil {
		p.Log = r.mon.snapshot()
	}
	if p.Log == nil {
		p.Log = []CB{}
	}
	return p, problem
}

func expected(post Post, withMon bool) proj {
	e := proj{Open: fmt.Sprint(post.Open), Gen: post.Gen, Cause: post.Cause, Log: post.Log}
	if e.Log == nil || !withMon {
		e.Log = []CB{}
	}
	// "reopened" carries no arguments in the real callback
	out := make([]CB, len(e.Log))
	for i, c := range e.Log {
		if c.Cb == "reopened" {
			c = CB{"reopened", 0, 0}
		}
		out[i] = c
	}
	e.Log = out
	return e
}

var cutCounter int

// replayHistory drives one TLC history. cuts: if non-nil, the cut offsets to use for the fault steps.
func replayHistory(cfg config, idx int, hist []Step, cuts []int) {
	r := newRig(cfg)
	ci := 0
	settle := time.Duration(3*cfg.MaxWait+6) * time.Millisecond
	for i := range hist {
		s := &hist[i]
		resStr := ""
		switch s.Op {
		case "open":
			err := withDeadline(r.tr.Open)
			resStr = classifyOpen(err)
			if err == nil {
				r.g.capture(r.tr)
				r.waitReader()
			}
		case "openfail":
			r.pipe.SetOpenErr(faultio.ErrInjected)
			resStr = classifyOpen(withDeadline(r.tr.Open))
			r.pipe.SetOpenErr(nil)
		case "close":
			resStr = classifyClose(withDeadline(r.tr.Close))
		case "closefail":
			r.pipe.SetCloseErr(faultio.ErrInjected)
			resStr = classifyClose(withDeadline(r.tr.Close))
			r.pipe.SetCloseErr(nil)
		case "fault":
			res.Faults++
			res.Kinds[s.Kind]++
			r.pipe.SetOpenFailures(s.K)
			cut := 0
			if cuts != nil && ci < len(cuts) {
				cut = cuts[ci]
				ci++
			} else {
				cut = cutCounter % (len(stream) + 1)
				cutCounter++
			}
			s.Cut = cut
			switch s.Kind {
			case "eof":
				res.CutOffsets[cut]++
				r.pipe.Feed(stream[:cut])
				r.pipe.EOF()
			case "err":
				res.CutOffsets[cut]++
				r.pipe.Feed(stream[:cut])
				if cut%2 == 1 {
					// a broken connection seen first by a writer: the write fails, then the read
					r.pipe.OnWrite = func(b []byte) error { return faultio.ErrInjected }
					fc := frugal.NewFContext("")
					fc.SetTimeout(200 * time.Millisecond)
					r.tr.Request(fc, wire.OpFrame(1, nil))
					r.pipe.OnWrite = nil
				}
				r.pipe.Fail(errors.New("connection reset by peer"))
			case "badframe":
				// whole frames up to a frame boundary, then a frame whose frugal header is undecodable
				k := frameEnds[cut%len(frameEnds)]
				r.pipe.Feed(stream[:k])
				r.pipe.Feed(wire.Frame([]byte{9, 0, 0, 0, 0}))
			}
			resStr = "fault"
		}
		res.Steps++
		if resStr == "HANG" {
			violate("call-hangs/"+s.Op, fmt.Sprintf("%s did not return within 5 s (deadlock) at step %d of history %d", s.Op, i, idx), map[string]interface{}{"config": cfg, "history": hist[:i+1]})
			return
		}
		if s.Op != "fault" && resStr != s.Post.Res {
			violate("result/"+s.Op+"/"+s.Post.Res, fmt.Sprintf("step %d (%s): the call returned %q, the specification says %q", i, s.Op, resStr, s.Post.Res), map[string]interface{}{"config": cfg, "history": hist[:i+1]})
			return
		}
		// quiescence: wait until the projection equals the specification's state, then require it to stay
		want := expected(s.Post, cfg.WithMonitor)
		deadline := time.Now().Add(3 * time.Second)
		var got proj
		var problem string
		matched := false
		for {
			got, problem = r.project(len(want.Cause))
			if got.Open == "HANG" {
				break
			}
			if reflect.DeepEqual(got, want) {
				matched = true
				break
			}
			if time.Now().After(deadline) {
				break
			}
			time.Sleep(200 * time.Microsecond)
		}
		if matched && s.Op == "fault" {
			time.Sleep(settle)
			got, problem = r.project(len(want.Cause))
			matched = reflect.DeepEqual(got, want)
		}
		if !matched || problem != "" {
			gb, _ := json.Marshal(got)
			wb, _ := json.Marshal(want)
			key := "state-mismatch/" + s.Op
			if s.Op == "fault" {
				key += "/" + s.Kind
			}
			if got.Open == "HANG" {
				key = "isopen-hangs"
			} else if got.Open != want.Open {
				key += "/open"
			} else if !reflect.DeepEqual(got.Cause, want.Cause) {
				key += "/cause"
			} else if !reflect.DeepEqual(got.Log, want.Log) {
				key += "/monitor-log"
			}
			violate(key, fmt.Sprintf("after step %d (%s %s k=%d cut=%d) of history %d the transport shows %s, the specification %s %s", i, s.Op, s.Kind, s.K, s.Cut, idx, gb, wb, problem),
				map[string]interface{}{"config": cfg, "history": hist[:i+1]})
			return
		}
	}
	// leave nothing running
	withDeadline(r.tr.Close)
}

// ---- gate-steered races: user Close vs. the read loop of a failing generation ----

type raceCase struct {
	Fault  string `json:"fault"`  // eof | err
	Hold   string `json:"hold"`   // life.rl.err | life.rl.closing
	User   string `json:"user"`   // close | none
	Second string `json:"second"` // eof | err | badframe
	Cut    int    `json:"cut"`
}

func inject(p *faultio.Pipe, kind string, cut int) {
	switch kind {
	case "eof":
		p.Feed(stream[:cut])
		p.EOF()
	case "err":
		p.Feed(stream[:cut])
		p.Fail(errors.New("connection reset by peer"))
	case "badframe":
		p.Feed(wire.Frame([]byte{9, 0, 0, 0, 0}))
	}
}

func raceReopen(rc raceCase, r *rig, ctl *sched.Ctl, fail func(key, text string)) {
	if e := classifyClose(withDeadline(r.tr.Close)); e != "closed" {
		fail("reopen-race/close", "user Close while the read loop was held at "+rc.Hold+" returned "+e)
		ctl.ReleaseAll()
		return
	}
	if e := classifyOpen(withDeadline(r.tr.Open)); e != "ok" {
		fail("reopen-race/open", "Open after that Close returned "+e)
		ctl.ReleaseAll()
		return
	}
	r.g.capture(r.tr)
	r.waitReader()
	ctl.Release(rc.Hold, sched.AnyID) // now the late read loop of generation 1 continues
	time.Sleep(5 * time.Millisecond)
	p, problem := r.project(2)
	if p.Open != "true" || p.Cause[1] != "none" {
		fail("reopen-race/late-loop-closed-new-generation", fmt.Sprintf("the read loop of the failed generation 1, released after Close + Open, affected generation 2: transport shows %+v %s", p, problem))
		return
	}
	if p.Cause[0] != "nil" {
		fail("reopen-race/first-cause", fmt.Sprintf("generation 1 was closed by the user but published %v", p.Cause))
		return
	}
	// generation 2 still detects its own failure, exactly once
	inject(r.pipe, rc.Second, rc.Cut)
	ok := false
	for dl := time.Now().Add(2 * time.Second); time.Now().Before(dl); time.Sleep(300 * time.Microsecond) {
		p, problem = r.project(2)
		if p.Open == "false" && p.Cause[1] != "none" {
			ok = true
			break
		}
	}
	want := "err"
	if rc.Second == "eof" {
		want = "nil"
	}
	if !ok || p.Cause[1] != want || problem != "" {
		fail("reopen-race/second-failure", fmt.Sprintf("generation 2 %s fault after the race: transport shows %+v %s", rc.Second, p, problem))
	}
}

func race(rc raceCase, traceW *bufio.Writer) {
	ctl := sched.New()
	ctl.Install()
	r := newRig(config{})
	fail := func(key, text string) { violate("race/"+key, text+fmt.Sprintf(" [case %+v]", rc), rc) }
	if e := classifyOpen(withDeadline(r.tr.Open)); e != "ok" {
		fail("open", "first Open: "+e)
		return
	}
	r.g.capture(r.tr)
	r.waitReader()
	ctl.Arm(rc.Hold, sched.AnyID)
	inject(r.pipe, rc.Fault, rc.Cut)
	if !ctl.WaitParked(rc.Hold, sched.AnyID, 2*time.Second) {
		res.Notes = append(res.Notes, fmt.Sprintf("race %+v: read loop did not reach %s", rc, rc.Hold))
		ctl.ReleaseAll()
		return
	}
	userDone := make(chan string, 1)
	if rc.User == "close" {
		go func() { userDone <- classifyClose(r.tr.Close()) }()
		// let the user's Close get as far as it can (it may finish, or park on f.mu / the signal channel)
		time.Sleep(3 * time.Millisecond)
	}
	if rc.User == "close+open" {
		// the user closes and reopens while the failing generation's read loop is still on its way to close():
		// the late loop must not touch the new generation
		raceReopen(rc, r, ctl, fail)
		return
	}
	ctl.Release(rc.Hold, sched.AnyID)
	userRes := "none"
	if rc.User == "close" {
		select {
		case userRes = <-userDone:
		case <-time.After(5 * time.Second):
			fail("close-deadlock", "user Close racing the read loop did not return within 5 s")
			return
		}
	}
	// quiescence: closed, one cause
	ok := false
	var p proj
	var problem string
	for dl := time.Now().Add(3 * time.Second); time.Now().Before(dl); time.Sleep(300 * time.Microsecond) {
		p, problem = r.project(2)
		if p.Open == "false" && p.Cause[0] != "none" {
			ok = true
			break
		}
		if p.Open == "HANG" {
			break
		}
	}
	time.Sleep(3 * time.Millisecond)
	p, problem = r.project(2)
	if !ok || p.Open != "false" {
		fail("failure-not-detected", fmt.Sprintf("after a %s fault (user: %s -> %s) the transport shows %+v", rc.Fault, rc.User, userRes, p))
		return
	}
	if problem != "" {
		fail("cause-count", problem)
		return
	}
	if p.Cause[0] == "err" && rc.Fault == "eof" {
		fail("cause-nonnil-for-clean", "peer EOF / user close published a non-nil cause")
		return
	}
	if p.Cause[0] != "nil" && p.Cause[0] != "err" {
		fail("cause-missing", fmt.Sprintf("generation 1 closed with causes %v", p.Cause))
		return
	}
	// second generation: reopen, fail again, must be detected again; then Close/Open stay consistent
	if e := classifyOpen(withDeadline(r.tr.Open)); e != "ok" {
		fail("reopen", "Open after the close returned "+e)
		return
	}
	r.g.capture(r.tr)
	r.waitReader()
	inject(r.pipe, rc.Second, rc.Cut)
	ok = false
	for dl := time.Now().Add(2 * time.Second); time.Now().Before(dl); time.Sleep(300 * time.Microsecond) {
		p, problem = r.project(2)
		if p.Open == "false" && p.Cause[1] != "none" {
			ok = true
			break
		}
		if p.Open == "HANG" {
			break
		}
	}
	if !ok {
		fail("second-failure-not-detected", fmt.Sprintf("second generation %s fault: transport shows %+v", rc.Second, p))
		return
	}
	wantCause := "err"
	if rc.Second == "eof" {
		wantCause = "nil"
	}
	if p.Cause[1] != wantCause || problem != "" {
		fail("second-cause", fmt.Sprintf("second generation %s fault published %v %s", rc.Second, p.Cause, problem))
		return
	}
	if e := classifyClose(withDeadline(r.tr.Close)); e != "NOT_OPEN" {
		fail("close-after-failure", "Close on the failed transport returned "+e)
		return
	}
	if e := classifyOpen(withDeadline(r.tr.Open)); e != "ok" {
		fail("third-open", "Open returned "+e)
		return
	}
	r.g.capture(r.tr)
	if e := classifyOpen(withDeadline(r.tr.Open)); e != "ALREADY_OPEN" {
		fail("already-open", "second Open returned "+e)
		return
	}
	if e := classifyClose(withDeadline(r.tr.Close)); e != "closed" {
		fail("final-close", "Close returned "+e)
		return
	}
	time.Sleep(2 * time.Millisecond)
	// events for the trace spec
	if traceW != nil {
		for _, e := range ctl.Events() {
			if len(e.Point) > 5 && e.Point[:5] == "life." {
				fmt.Fprintf(traceW, "{\"ev\":%q}\n", e.Point)
			}
		}
		fmt.Fprintf(traceW, "{\"ev\":\"reset\"}\n")
		res.TraceRuns++
	}
}

// natsHistories replays the open/close histories of LifeAbs on the stateless NATS client transport,
// the second, much simpler instance of the same user-level machine (Close of a closed transport is a
// no-op there and returns nil).
func natsHistories(path string) {
	srv, err := brokers.StartNats()
	if err != nil {
		fmt.Fprintln(os.Stderr, err)
		os.Exit(2)
	}
	defer srv.Stop()
	f, err := os.Open(path)
	if err != nil {
		fmt.Fprintln(os.Stderr, err)
		os.Exit(2)
	}
	sc := bufio.NewScanner(f)
	sc.Buffer(make([]byte, 1<<20), 1<<26)
	idx := 0
	for sc.Scan() {
		var h []Step
		if err := json.Unmarshal(sc.Bytes(), &h); err != nil {
			os.Exit(2)
		}
		only := true
		for _, s := range h {
			if s.Op != "open" && s.Op != "close" {
				only = false
			}
		}
		if !only {
			continue
		}
		conn, err := srv.Conn()
		if err != nil {
			os.Exit(2)
		}
		tr := frugal.NewFNatsTransport(conn, "svc", "")
		g := &gens{}
		for i, s := range h {
			var got string
			switch s.Op {
			case "open":
				e := withDeadline(tr.Open)
				got = classifyOpen(e)
				if e == nil {
					g.capture(tr)
				}
			case "close":
				got = classifyClose(withDeadline(tr.Close))
				if got == "closed" && s.Post.Res == "NOT_OPEN" {
					got = "NOT_OPEN" // idempotent Close
				}
			}
			res.Steps++
			open := tr.IsOpen()
			causes, problem := g.causes(len(s.Post.Cause))
			if got != s.Post.Res || open != s.Post.Open || !reflect.DeepEqual(causes, s.Post.Cause) || problem != "" {
				violate("nats/state-mismatch/"+s.Op, fmt.Sprintf("NATS transport, history %d step %d (%s): result %q open=%v causes=%v %s; specification: %q open=%v causes=%v", idx, i, s.Op, got, open, causes, problem, s.Post.Res, s.Post.Open, s.Post.Cause), map[string]interface{}{"history": h[:i+1]})
				break
			}
		}
		tr.Close()
		conn.Close()
		res.Runs++
		idx++
	}
}

// staleReader is the schedule TLC finds with StartAtomic = FALSE: Open, Close and Open again before the
// first generation's read loop has entered its first read. The old loop then reads the reopened transport.
func staleReader() {
	ctl := sched.New()
	ctl.Install()
	defer ctl.ReleaseAll()
	r := newRig(config{})
	ctl.Arm("life.rl.start", sched.AnyID)
	if classifyOpen(withDeadline(r.tr.Open)) != "ok" {
		return
	}
	r.g.capture(r.tr)
	if !ctl.WaitParked("life.rl.start", sched.AnyID, 2*time.Second) {
		res.Notes = append(res.Notes, "stale-reader scenario: read loop did not reach its start gate")
		return
	}
	if classifyClose(withDeadline(r.tr.Close)) != "closed" {
		return
	}
	ctl.Release("life.rl.start", sched.AnyID) // disarm: the second generation's loop starts normally
	// the released old loop is now racing; give the reopen a head start by reopening first
	ctl.Arm("life.rl.start", sched.AnyID)
	if classifyOpen(withDeadline(r.tr.Open)) != "ok" {
		return
	}
	r.g.capture(r.tr)
	ctl.Release("life.rl.start", sched.AnyID)
	time.Sleep(5 * time.Millisecond)
	readers := r.pipe.Waiters()
	res.Runs++
	if readers > 1 {
		violate("stale-reader/open-close-open-before-first-read", fmt.Sprintf("Open, Close, Open before the first read loop reached its first read: %d read loops are now blocked reading the reopened transport (the stale one steals the new generation's frames; a failure it sees is dropped by the generation check)", readers), "open; close; open with the first read loop held at life.rl.start")
	}
	withDeadline(r.tr.Close)
}


// ---- trace mode: free-running scenarios recorded through the hooks, validated by TLC against AdapterLifeTrace ----

// traceScenario runs one seeded script of user calls (Open, failing Open, Close, failing Close) and stream faults against a fresh
// adapter transport without a monitor, lets the read loops run as the scheduler pleases, and writes the events in hook order:
// hook events carry the generation (numbered in the order of life.open events, 0 = the caller), driver events are emitted under
// the same sequence counter - a fault before it takes effect, the result of a call after it returned.
func traceScenario(seed int64, w *bufio.Writer) (events int, problem string) {
	rng := rand.New(rand.NewSource(seed))
	ctl := sched.New()
	ctl.Install()
	r := newRig(config{})
	pause := func() {
		switch rng.Intn(5) {
		case 0:
			runtime.Gosched()
		case 1:
			time.Sleep(30 * time.Microsecond)
		case 2:
			time.Sleep(300 * time.Microsecond)
		}
	}
	believedOpen, faulted, opens := false, false, 0
	kinds := []string{"eof", "err", "badframe"}
	// Reopening while the read loop of an earlier generation is still alive is the recorded stale-reader finding (nothing stops
	// that loop from reading the reopened transport unless it is blocked in a read at the moment of the Close) and is kept out
	// of these traces: before an Open the user waits until every earlier loop has left (its signalled / notopen / done event).
	waitLoopsGone := func() {
		for dl := time.Now().Add(2 * time.Second); time.Now().Before(dl); time.Sleep(50 * time.Microsecond) {
			alive := map[uint64]bool{}
			for _, e := range ctl.Events() {
				switch e.Point {
				case "life.open":
					alive[e.ID] = true
				case "life.rl.signalled", "life.close.notopen", "life.close.done":
					if e.ID != 0 {
						delete(alive, e.ID)
					}
				}
			}
			if len(alive) == 0 {
				return
			}
		}
	}
	// the start-up latency of a read loop is the recorded stale-reader finding and not part of these traces: after a
	// successful Open the user waits until the loop of the new generation has reported its start
	waitStarted := func() {
		var id uint64
		for _, e := range ctl.Events() {
			if e.Point == "life.open" {
				id = e.ID
			}
		}
		ctl.WaitEvent(0, 2*time.Second, func(e sched.Event) bool { return e.Point == "life.rl.start" && e.ID == id })
		for dl := time.Now().Add(2 * time.Second); time.Now().Before(dl) && r.pipe.WaitersCurrent() == 0; {
			time.Sleep(20 * time.Microsecond)
		}
	}
	steps := 6 + rng.Intn(8)
	for i := 0; i < steps; i++ {
		pause()
		if !believedOpen {
			if opens >= 4 {
				break
			}
			if rng.Intn(6) == 0 {
				r.pipe.SetOpenFailures(1)
			}
			waitLoopsGone()
			res := classifyOpen(withDeadline(r.tr.Open))
			switch res {
			case "ok":
				ctl.Emit("u.openret", 0, 0)
				believedOpen, faulted = true, false
				opens++
				waitStarted()
			case "ALREADY_OPEN":
				ctl.Emit("u.openret", 0, 1)
				believedOpen = true
			case "openerr":
				ctl.Emit("u.openret", 0, 2)
			default:
				return 0, "Open: " + res
			}
			continue
		}
		switch x := rng.Intn(100); {
		case x < 40 && !faulted:
			k := rng.Intn(3)
			cut := rng.Intn(len(stream) + 1)
			ctl.Emit("env.fault", uint64(k), cut)
			inject(r.pipe, kinds[k], cut)
			faulted = true
		case x < 75:
			res := classifyClose(withDeadline(r.tr.Close))
			switch res {
			case "closed":
				ctl.Emit("u.closeret", 0, 0)
			case "NOT_OPEN":
				ctl.Emit("u.closeret", 0, 1)
			default:
				return 0, "Close: " + res
			}
			believedOpen = false
		case x < 85 && !faulted:
			// (a failing underlying Close is injected only while no read loop is on its way to close(): the loop's own
			// close hitting the injected error is the close-fail corner outside C15's fault list)
			r.pipe.SetCloseErr(faultio.ErrInjected)
			res := classifyClose(withDeadline(r.tr.Close))
			switch res {
			case "closeerr":
				ctl.Emit("u.closeret", 0, 2)
			case "NOT_OPEN":
				// the read loop was faster: the injected error is still pending and would hit the next Close
				r.pipe.SetCloseErr(nil)
				ctl.Emit("u.closeret", 0, 1)
				believedOpen = false
			case "closed":
				return 0, "Close returned nil although the underlying Close failed"
			default:
				return 0, "Close: " + res
			}
		default:
			if opens >= 4 {
				continue
			}
			if faulted {
				waitLoopsGone() // the faulted generation is closing itself: Open either finds it still open or reopens
			}
			res := classifyOpen(withDeadline(r.tr.Open))
			switch res {
			case "ok":
				ctl.Emit("u.openret", 0, 0)
				faulted = false
				opens++
				waitStarted()
			case "ALREADY_OPEN":
				ctl.Emit("u.openret", 0, 1)
			default:
				return 0, "Open: " + res
			}
		}
	}
	// let the read loops finish what they are doing: every loop has left, except that of a healthy open generation, which is
	// blocked in its read
	for dl := time.Now().Add(3 * time.Second); time.Now().Before(dl); time.Sleep(100 * time.Microsecond) {
		alive := map[uint64]bool{}
		var last uint64
		for _, e := range ctl.Events() {
			switch e.Point {
			case "life.open":
				alive[e.ID], last = true, e.ID
			case "life.rl.signalled", "life.close.notopen", "life.close.done":
				if e.ID != 0 {
					delete(alive, e.ID)
				}
			}
		}
		if len(alive) == 0 || (len(alive) == 1 && alive[last] && !faulted && r.tr.IsOpen() && r.pipe.WaitersCurrent() >= 1) {
			break
		}
	}
	time.Sleep(200 * time.Microsecond)
	frugal.VerifHook = nil
	if os.Getenv("LIFE_DEBUG") != "" {
		for _, e := range ctl.Events() {
			fmt.Fprintf(w, "{\"ev\":\"raw:%s\",\"g\":%d,\"k\":\"%d/%d\"}\n", e.Point, e.Obj, e.ID%100000, e.N)
		}
	}
	gen := map[uint64]int{}
	nopen := 0
	obj := ctl.ObjID(r.tr)
	for _, e := range ctl.Events() {
		if strings.HasPrefix(e.Point, "life.") {
			if obj != 0 && e.Obj != obj {
				continue
			}
			if e.Point == "life.open" {
				nopen++ // (a channel address can be reused once the old generation's loop is gone)
				gen[e.ID] = nopen
			}
			g := 0
			if e.ID != 0 {
				var ok bool
				if g, ok = gen[e.ID]; !ok {
					return 0, fmt.Sprintf("event %s of a generation that was never opened", e.Point)
				}
			}
			fmt.Fprintf(w, "{\"ev\":%q,\"g\":%d,\"k\":\"\"}\n", strings.TrimPrefix(e.Point, "life."), g)
			events++
		} else if e.Point == "env.fault" {
			fmt.Fprintf(w, "{\"ev\":\"fault\",\"g\":%d,\"k\":%q}\n", nopen, kinds[e.ID])
			events++
		} else if e.Point == "u.openret" || e.Point == "u.closeret" {
			fmt.Fprintf(w, "{\"ev\":%q,\"g\":%d,\"k\":\"\"}\n", strings.TrimPrefix(e.Point, "u."), e.N)
			events++
		}
	}
	fmt.Fprintf(w, "{\"ev\":\"reset\",\"g\":0,\"k\":\"\"}\n")
	return events + 1, ""
}

func main() {
	mode := flag.String("mode", "hist", "hist | race")
	in := flag.String("in", "", "histories: one JSON array per line")
	out := flag.String("out", "results.json", "")
	trace := flag.String("trace", "", "")
	cfgs := flag.String("config", `{"max_attempts":2,"initial_wait_ms":1,"max_wait_ms":3,"with_monitor":true}`, "")
	replayFile := flag.String("replay", "", "replay one saved violation")
	nscen := flag.Int("n", 100, "trace mode: number of scenarios")
	seed := flag.Int64("seed", 1, "trace mode: seed")
	flag.Parse()
	logrus.SetOutput(io.Discard)
	var cfg config
	if err := json.Unmarshal([]byte(*cfgs), &cfg); err != nil {
		fmt.Fprintln(os.Stderr, err)
		os.Exit(2)
	}
	res.Mode = *mode
	res.CutsTotal = len(stream) + 1
	switch *mode {
	case "hist":
		var lines []string
		if *replayFile != "" {
			b, _ := os.ReadFile(*replayFile)
			var v struct {
				Replay struct {
					Config  config `json:"config"`
					History []Step `json:"history"`
				} `json:"replay"`
			}
			json.Unmarshal(b, &v)
			cfg = v.Replay.Config
			var cuts []int
			for _, s := range v.Replay.History {
				if s.Op == "fault" {
					cuts = append(cuts, s.Cut)
				}
			}
			replayHistory(cfg, 0, v.Replay.History, cuts)
			res.Runs++
		} else {
			f, err := os.Open(*in)
			if err != nil {
				fmt.Fprintln(os.Stderr, err)
				os.Exit(2)
			}
			sc := bufio.NewScanner(f)
			sc.Buffer(make([]byte, 1<<20), 1<<26)
			for sc.Scan() {
				lines = append(lines, sc.Text())
			}
			for i, l := range lines {
				if len(res.Violations) >= 8 {
					res.Notes = append(res.Notes, fmt.Sprintf("stopped after %d violations (%d of %d histories replayed)", len(res.Violations), i, len(lines)))
					break
				}
				var h []Step
				if err := json.Unmarshal([]byte(l), &h); err != nil {
					fmt.Fprintln(os.Stderr, "bad history:", err)
					os.Exit(2)
				}
				replayHistory(cfg, i, h, nil)
				res.Runs++
				if len(res.Samples) < 2 && len(h) > 0 && h[len(h)-1].Op == "fault" {
					res.Samples = append(res.Samples, h)
				}
			}
		}
	case "trace":
		tf, err := os.Create(*trace)
		if err != nil {
			fmt.Fprintln(os.Stderr, err)
			os.Exit(2)
		}
		tw := bufio.NewWriter(tf)
		for i := 0; i < *nscen; i++ {
			n, problem := traceScenario(*seed*100003+int64(i), tw)
			if problem != "" {
				violate("trace-run/"+strings.SplitN(problem, ":", 2)[0], fmt.Sprintf("scenario %d (seed %d): %s", i, *seed*100003+int64(i), problem), map[string]interface{}{"seed": *seed*100003 + int64(i)})
				continue
			}
			res.Runs++
			res.Steps += n
		}
		tw.Flush()
		tf.Close()
	case "natshist":
		natsHistories(*in)
	case "stale":
		staleReader()
	case "race":
		var tw *bufio.Writer
		if *trace != "" {
			tf, _ := os.Create(*trace)
			defer tf.Close()
			tw = bufio.NewWriter(tf)
			defer tw.Flush()
		}
		n := 0
		for _, f := range []string{"eof", "err"} {
			for _, h := range []string{"life.rl.err", "life.rl.closing"} {
				for _, u := range []string{"close", "none", "close+open"} {
					for _, s := range []string{"eof", "err", "badframe"} {
						for _, cut := range []int{0, 3, frameEnds[0], frameEnds[0] + 5, len(stream)} {
							rc := raceCase{f, h, u, s, cut}
							if len(res.Violations) >= 8 {
								continue
							}
							race(rc, tw)
							res.Runs++
							n++
							if len(res.Samples) < 2 {
								res.Samples = append(res.Samples, rc)
							}
						}
					}
				}
			}
		}
	}
	res.CutsSeen = len(res.CutOffsets)
	b, _ := json.MarshalIndent(res, "", " ")
	os.WriteFile(*out, b, 0o644)
}
