// Command mwcheck is the conformance driver of the Middleware specification
// (C16): TLC-enumerated middleware lists (observe / rewrite argument / rewrite
// result / replace error) at every attachment point (constructor, provider,
// AddMiddleware) of the generated client, processor, publisher and subscriber;
// the ordered enter / exit log and the values seen at both ends must equal the
// specification's.
package main

import (
	"encoding/json"
	"errors"
	"flag"
	"fmt"
	"io"
	"os"
	"reflect"
	"strings"
	"sync"
	"time"

	frugal "github.com/Workiva/frugal/lib/go"
	"github.com/apache/thrift/lib/go/thrift"
	"github.com/sirupsen/logrus"

	"verifharness/gen/verifrpc"
	"verifharness/internal/rig"
)

type Ev struct {
	Ev    string `json:"ev"`
	Layer int    `json:"layer"`
	Arg   int    `json:"arg"`
	Res   int    `json:"res"`
	Err   int    `json:"err"`
}

type Want struct {
	Log        []Ev  `json:"log"`
	Res        int   `json:"res"`
	Err        int   `json:"err"`
	HandlerArg []int `json:"handlerArg"`
}

type Case struct {
	Ctor  []string `json:"ctor"`
	Prov  []string `json:"prov"`
	Added []string `json:"added"`
	Want  Want     `json:"want"`
}

type Violation struct {
	Key    string      `json:"key"`
	Text   string      `json:"text"`
	Replay interface{} `json:"replay"`
}

type Results struct {
	Runs       int            `json:"runs"`
	Violations []Violation    `json:"violations"`
	Samples    []interface{}  `json:"samples"`
	Points     map[string]int `json:"attachment_points"`
}

var res = Results{Points: map[string]int{}}

func violate(key, text string, replay interface{}) {
	if len(res.Violations) < 30 {
		res.Violations = append(res.Violations, Violation{key, text, replay})
	}
}

type mwErr struct{ layer int }

func (e *mwErr) Error() string { return fmt.Sprintf("mw-%d", e.layer) }

func errLayer(err error) int {
	if err == nil {
		return 0
	}
	var m *mwErr
	if errors.As(err, &m) {
		return m.layer
	}
	// crossed the wire as an application exception: "... mw-<k>"
	s := err.Error()
	if i := strings.LastIndex(s, "mw-"); i >= 0 {
		n := 0
		fmt.Sscanf(s[i+3:], "%d", &n)
		return n
	}
	return -1
}

type logger struct {
	mu  sync.Mutex
	log []Ev
}

func (l *logger) add(e Ev) { l.mu.Lock(); l.log = append(l.log, e); l.mu.Unlock() }
func (l *logger) take() []Ev {
	l.mu.Lock()
	defer l.mu.Unlock()
	o := l.log
	l.log = nil
	return o
}

// argIndex: position of the value argument in args (after the FContext, and the prefix variable for scopes)
func mw(layer int, kind string, lg *logger, argIndex int, isString bool) frugal.ServiceMiddleware {
	return func(next frugal.InvocationHandler) frugal.InvocationHandler {
		return func(svc reflect.Value, m reflect.Method, args frugal.Arguments) frugal.Results {
			arg := 0
			if isString {
				arg = strings.Count(args[argIndex].(string), "+") + 1
			} else {
				arg = int(args[argIndex].(int32))
			}
			lg.add(Ev{Ev: "enter", Layer: layer, Arg: arg})
			if kind == "arg" {
				if isString {
					args[argIndex] = args[argIndex].(string) + "+"
				} else {
					args[argIndex] = args[argIndex].(int32) + 1
				}
			}
			var r frugal.Results
			if kind == "twice" {
				// a retry / fallback layer: call next, call it again with arg+100, hand back what the FIRST call returned
				a1 := append(frugal.Arguments(nil), args...)
				a2 := append(frugal.Arguments(nil), args...)
				if isString {
					a2[argIndex] = a2[argIndex].(string) + strings.Repeat("+", 100)
				} else {
					a2[argIndex] = a2[argIndex].(int32) + 100
				}
				r = next(svc, m, a1)
				next(svc, m, a2)
			} else {
				r = next(svc, m, args)
			}
			e := Ev{Ev: "exit", Layer: layer, Err: errLayer(r.Error())}
			if len(r) == 2 && !isString {
				if v, ok := r[0].(int32); ok {
					e.Res = int(v)
				}
			}
			lg.add(e)
			if kind == "res" && len(r) == 2 && !isString {
				if v, ok := r[0].(int32); ok {
					r[0] = v * 2
				}
			}
			if kind == "err" {
				r.SetError(&mwErr{layer})
			}
			if kind == "clr" {
				r.SetError(nil)
			}
			return r
		}
	}
}

func build(kinds []string, first int, lg *logger, argIndex int, isString bool) []frugal.ServiceMiddleware {
	var out []frugal.ServiceMiddleware
	for i, k := range kinds {
		out = append(out, mw(first+i, k, lg, argIndex, isString))
	}
	return out
}

// handler: add returns a*10 and records what it saw
type handler struct {
	*rig.Handler
	mu   sync.Mutex
	seen []int
}

func (h *handler) Add(ctx frugal.FContext, a, b int32) (int32, error) {
	h.mu.Lock()
	h.seen = append(h.seen, int(a))
	h.mu.Unlock()
	return a * 10, nil
}
func (h *handler) Ping(ctx frugal.FContext, s string) (string, error) {
	h.mu.Lock()
	h.seen = append(h.seen, strings.Count(s, "+")+1)
	h.mu.Unlock()
	return "pong", nil
}
func (h *handler) take() []int {
	h.mu.Lock()
	defer h.mu.Unlock()
	o := h.seen
	h.seen = nil
	return o
}

func sameLog(got, want []Ev, withRes bool) bool {
	if len(got) != len(want) {
		return false
	}
	for i := range got {
		g, w := got[i], want[i]
		if g.Ev != w.Ev || g.Layer != w.Layer || g.Err != w.Err {
			return false
		}
		if g.Ev == "enter" && g.Arg != w.Arg {
			return false
		}
		if withRes && g.Ev == "exit" && g.Res != w.Res {
			return false
		}
	}
	return true
}

func noRes(kinds ...[]string) bool {
	for _, l := range kinds {
		for _, k := range l {
			if k == "res" {
				return false
			}
		}
	}
	return true
}

// withoutResValues: for string methods and scopes the result is not an integer: compare structure only,
// and a "res" layer is an observer.
func stripRes(w []Ev) []Ev {
	o := make([]Ev, len(w))
	for i, e := range w {
		e.Res = 0
		o[i] = e
	}
	return o
}

func main() {
	in := flag.String("in", "", "middleware_cases.json")
	out := flag.String("out", "results.json", "")
	proto := flag.String("protocol", "binary", "")
	flag.Parse()
	logrus.SetOutput(io.Discard)
	logrus.SetLevel(logrus.PanicLevel)
	raw, err := os.ReadFile(*in)
	if err != nil {
		fmt.Fprintln(os.Stderr, err)
		os.Exit(2)
	}
	var cases []Case
	if err := json.Unmarshal(raw, &cases); err != nil {
		fmt.Fprintln(os.Stderr, err)
		os.Exit(2)
	}
	pf := rig.ProtocolFactory(*proto)
	ns, err := rig.SharedNats()
	if err != nil {
		os.Exit(2)
	}
	sc, _ := ns.Conn()
	pc, _ := ns.Conn()
	scopeSeq := 0
	for _, c := range cases {
		lg := &logger{}
		// ---------------- client: constructor list then provider list (provider wraps constructor) ----------------
		if len(c.Added) == 0 {
			h := &handler{Handler: rig.NewHandler()}
			env, _ := rig.StartWith("mem", *proto, verifrpc.NewFStoreProcessor(h))
			tr, _, _ := env.ClientTransport()
			for _, method := range []string{"add", "ping(inherited)", "add(list reused)", "ping(inherited)(list reused)"} {
				isStr := !strings.HasPrefix(method, "add")
				ctor := build(c.Ctor, 1, lg, 1, isStr)
				prov := build(c.Prov, 1+len(c.Ctor), lg, 1, isStr)
				var cl *verifrpc.FStoreClient
				if strings.HasSuffix(method, "(list reused)") {
					// Middleware!ChainIsAValue: the caller's list has spare capacity, is handed to a second client whose
					// provider carries other middleware, and is overwritten afterwards - the first client's chain stays
					shared := make([]frugal.ServiceMiddleware, len(ctor), len(ctor)+8)
					copy(shared, ctor)
					cl = verifrpc.NewFStoreClient(frugal.NewFServiceProvider(tr, pf, prov...), shared...)
					decoy := mw(90, "obs", lg, 1, isStr)
					_ = verifrpc.NewFStoreClient(frugal.NewFServiceProvider(tr, pf, decoy, decoy), shared...)
					for i := range shared {
						shared[i] = decoy
					}
				} else {
					cl = verifrpc.NewFStoreClient(frugal.NewFServiceProvider(tr, pf, prov...), ctor...)
				}
				var r int32
				var cerr error
				if isStr {
					_, cerr = cl.Ping(frugal.NewFContext(""), "")
				} else {
					r, cerr = cl.Add(frugal.NewFContext(""), 1, 0)
				}
				got := lg.take()
				seen := h.take()
				want := c.Want.Log
				okLog := sameLog(got, want, !isStr)
				if isStr {
					okLog = sameLog(got, stripRes(want), false)
				}
				label := "client/" + method
				rp := map[string]interface{}{"point": label, "case": c}
				if !okLog {
					violate(label+"/log", fmt.Sprintf("client %s, constructor %v + provider %v: middleware log %+v, the specification says %+v", method, c.Ctor, c.Prov, got, want), rp)
				}
				if !reflect.DeepEqual(seen, c.Want.HandlerArg) {
					violate(label+"/handler-argument", fmt.Sprintf("client %s, constructor %v + provider %v: the handler saw %v, the specification says %v", method, c.Ctor, c.Prov, seen, c.Want.HandlerArg), rp)
				}
				if errLayer(cerr) != c.Want.Err || (!isStr && int(r) != c.Want.Res) {
					violate(label+"/caller-sees", fmt.Sprintf("client %s, constructor %v + provider %v: the caller got (%d, %v), the specification says (%d, error of layer %d)", method, c.Ctor, c.Prov, r, cerr, c.Want.Res, c.Want.Err), rp)
				}
				res.Runs++
				res.Points[label]++
			}
		}
		// ---------------- processor: constructor list then AddMiddleware (outermost) ----------------
		if len(c.Prov) == 0 {
			for _, method := range []string{"add", "ping(inherited)"} {
				isStr := method != "add"
				h := &handler{Handler: rig.NewHandler()}
				ctor := build(c.Ctor, 1, lg, 1, isStr)
				p := verifrpc.NewFStoreProcessor(h, ctor...)
				for i, k := range c.Added {
					p.AddMiddleware(mw(1+len(c.Ctor)+i, k, lg, 1, isStr))
				}
				env, _ := rig.StartWith("mem", *proto, p)
				tr, _, _ := env.ClientTransport()
				cl := verifrpc.NewFStoreClient(frugal.NewFServiceProvider(tr, pf))
				var r int32
				var cerr error
				if isStr {
					_, cerr = cl.Ping(frugal.NewFContext(""), "")
				} else {
					r, cerr = cl.Add(frugal.NewFContext(""), 1, 0)
				}
				got := lg.take()
				seen := h.take()
				want := c.Want.Log
				okLog := sameLog(got, want, !isStr)
				if isStr {
					okLog = sameLog(got, stripRes(want), false)
				}
				label := "processor/" + method
				rp := map[string]interface{}{"point": label, "case": c}
				if !okLog {
					violate(label+"/log", fmt.Sprintf("processor %s, constructor %v + AddMiddleware %v: middleware log %+v, the specification says %+v", method, c.Ctor, c.Added, got, want), rp)
				}
				if !reflect.DeepEqual(seen, c.Want.HandlerArg) {
					violate(label+"/handler-argument", fmt.Sprintf("processor %s, constructor %v + AddMiddleware %v: the handler saw %v, the specification says %v", method, c.Ctor, c.Added, seen, c.Want.HandlerArg), rp)
				}
				// what the remote caller observes: the value, or an application error carrying the middleware's error
				if c.Want.Err == 0 {
					if cerr != nil || (!isStr && int(r) != c.Want.Res) {
						violate(label+"/caller-sees", fmt.Sprintf("processor %s, constructor %v + AddMiddleware %v: the remote caller got (%d, %v), the specification says %d", method, c.Ctor, c.Added, r, cerr, c.Want.Res), rp)
					}
				} else {
					var ae thrift.TApplicationException
					if !errors.As(cerr, &ae) || errLayer(cerr) != c.Want.Err {
						violate(label+"/caller-sees", fmt.Sprintf("processor %s, constructor %v + AddMiddleware %v: the remote caller got (%d, %v), the specification says an application error from layer %d", method, c.Ctor, c.Added, r, cerr, c.Want.Err), rp)
					}
				}
				res.Runs++
				res.Points[label]++
			}
		}
		// ---------------- publisher and subscriber (no result value: "res" layers are left out) ----------------
		if len(c.Added) == 0 && noRes(c.Ctor, c.Prov) && len(c.Ctor)+len(c.Prov) > 0 {
			for _, side := range []string{"publisher", "subscriber"} {
				scopeSeq++
				user := fmt.Sprintf("c16u%d", scopeSeq)
				got1 := make(chan int32, 64)
				var pubMW, pubProv, subMW, subProv []frugal.ServiceMiddleware
				if side == "publisher" {
					pubMW = build(c.Ctor, 1, lg, 2, false) // publishCount(ctx, user, req)
					pubProv = build(c.Prov, 1+len(c.Ctor), lg, 2, false)
				} else {
					subMW = build(c.Ctor, 1, lg, 1, false) // handler(ctx, req)
					subProv = build(c.Prov, 1+len(c.Ctor), lg, 1, false)
				}
				sub := verifrpc.NewEventsSubscriber(frugal.NewFScopeProvider(nil, frugal.NewFNatsSubscriberTransportFactory(sc), pf, subProv...), subMW...)
				s, err := sub.SubscribeCount(user, func(ctx frugal.FContext, n int32) { got1 <- n })
				if err != nil {
					fmt.Fprintln(os.Stderr, err)
					os.Exit(2)
				}
				pub := verifrpc.NewEventsPublisher(frugal.NewFScopeProvider(frugal.NewFNatsPublisherTransportFactory(pc), nil, pf, pubProv...), pubMW...)
				pub.Open()
				perr := pub.PublishCount(frugal.NewFContext(""), user, 1)
				pc.Flush()
				label := side + "/Count"
				rp := map[string]interface{}{"point": label, "case": c}
				var seen []int
				for len(seen) < len(c.Want.HandlerArg) {
					select {
					case n := <-got1:
						seen = append(seen, int(n))
						continue
					case <-time.After(1500 * time.Millisecond):
					}
					break
				}
				got := lg.take()
				want := stripRes(c.Want.Log)
				if side == "subscriber" {
					// exits are logged after the handler returned; wait for the outermost exit
					for dl := time.Now().Add(500 * time.Millisecond); len(got) < len(want) && time.Now().Before(dl); {
						time.Sleep(200 * time.Microsecond)
						got = append(got, lg.take()...)
					}
				}
				if !sameLog(got, want, false) {
					violate(label+"/log", fmt.Sprintf("%s, constructor %v + provider %v: middleware log %+v, the specification says %+v", side, c.Ctor, c.Prov, got, want), rp)
				}
				if !reflect.DeepEqual(seen, c.Want.HandlerArg) {
					violate(label+"/far-side-value", fmt.Sprintf("%s, constructor %v + provider %v: the subscriber's handler saw %v, the specification says %v", side, c.Ctor, c.Prov, seen, c.Want.HandlerArg), rp)
				}
				if side == "publisher" && errLayer(perr) != c.Want.Err {
					violate(label+"/caller-sees", fmt.Sprintf("publisher, constructor %v + provider %v: Publish returned %v, the specification says the error of layer %d", c.Ctor, c.Prov, perr, c.Want.Err), rp)
				}
				s.Unsubscribe()
				res.Runs++
				res.Points[label]++
			}
		}
		if len(res.Samples) < 2 && len(c.Ctor) == 2 && len(c.Prov) == 1 {
			res.Samples = append(res.Samples, c)
		}
	}
	b, _ := json.MarshalIndent(res, "", " ")
	os.WriteFile(*out, b, 0o644)
}
