// Command pubsub is the conformance driver of the PubSub specification (C07):
// it runs TLC-enumerated sequences of message kinds (valid, short, bad header,
// wrong operation, foreign topic) with an optional Unsubscribe position through
// the generated publisher / subscriber over embedded NATS and STOMP brokers and
// compares the handler log with the specification's expectation; the events are
// also written as a trace for TLC.
package main

import (
	"bufio"
	"context"
	"encoding/json"
	"flag"
	"fmt"
	"io"
	"net"
	"os"
	"reflect"
	"sort"
	"sync"
	"time"

	frugal "github.com/Workiva/frugal/lib/go"
	"github.com/apache/thrift/lib/go/thrift"
	"github.com/go-stomp/stomp"
	"github.com/nats-io/nats.go"
	"github.com/sirupsen/logrus"

	"verifharness/gen/verifbase"
	"verifharness/gen/verifrpc"
	"verifharness/internal/brokers"
	"verifharness/internal/rig"
	"verifharness/internal/wire"
)

type Case struct {
	Kinds  []string `json:"kinds"`
	Unsub  int      `json:"unsub"`
	Expect []int    `json:"expect"`
	Stall  bool     `json:"stall"` // hold the handler inside the first message until the whole sequence is published
}

type Violation struct {
	Key    string      `json:"key"`
	Text   string      `json:"text"`
	Replay interface{} `json:"replay"`
}

type Results struct {
	Runs       int           `json:"runs"`
	Published  int           `json:"published"`
	Delivered  int           `json:"delivered"`
	Violations []Violation   `json:"violations"`
	Notes      []string      `json:"notes"`
	Samples    []interface{} `json:"samples"`
}

var (
	res Results
	pf  = rig.ProtocolFactory("binary")
	tw  *bufio.Writer
)

type delivery struct {
	id    int64
	hdr   map[string]string
	cid   string
	item  *verifbase.Item
	start time.Time
}

// broker abstracts NATS / STOMP: raw publish on a frugal topic, and the provider for generated code.
type broker interface {
	provider(workers int) *frugal.FScopeProvider
	raw(topic string, b []byte)
	flush()
	name() string
}

type natsBroker struct {
	srv      *brokers.Nats
	sub, pub *nats.Conn
}

func (n *natsBroker) name() string { return "nats" }
func (n *natsBroker) provider(workers int) *frugal.FScopeProvider {
	sf := frugal.NewFNatsSubscriberFactoryBuilder(n.sub).WithWorkerCount(uint(workers)).Build()
	return frugal.NewFScopeProvider(frugal.NewFNatsPublisherTransportFactory(n.pub), sf, pf)
}
func (n *natsBroker) raw(topic string, b []byte) { n.pub.Publish("frugal."+topic, b) }
func (n *natsBroker) flush()                     { n.pub.Flush() }

type stompBroker struct {
	sub, pub *stomp.Conn
}

func (s *stompBroker) name() string { return "stomp" }
func (s *stompBroker) provider(workers int) *frugal.FScopeProvider {
	return frugal.NewFScopeProvider(frugal.NewFStompPublisherTransportFactoryBuilder(s.pub).Build(),
		frugal.NewFStompSubscriberTransportFactoryBuilder(s.sub).Build(), pf)
}
func (s *stompBroker) raw(topic string, b []byte) {
	s.pub.Send("/topic/frugal."+topic, "application/octet-stream", b)
}
func (s *stompBroker) flush() {}

var runSeq int

func itemFor(id int64) *verifbase.Item {
	name := fmt.Sprintf("name-%d-é", id)
	return &verifbase.Item{ID: id, Name: &name, Kinds: []verifbase.Kind{verifbase.Kind_A, verifbase.Kind_C},
		M: map[string][]int32{"a": {int32(id), -1}, "": {}}, Blob: []byte{0, byte(id), 255}, Flag: id%2 == 0}
}

func wrongOpMsg() []byte {
	buf := thrift.NewTMemoryBuffer()
	p := pf.GetProtocol(buf)
	p.WriteRequestHeader(frugal.NewFContext("wrongop"))
	ctx := context.Background()
	p.WriteMessageBegin(ctx, "SomethingElse", thrift.CALL, 0)
	itemFor(77).Write(ctx, p)
	p.WriteMessageEnd(ctx)
	return wire.Frame(buf.Bytes())
}

// resubscribe: PubSub!SubscribeAgain - a subscriber transport that is subscribed to topic A is asked to subscribe to topic B
// as well.  Whatever it answers (the library rejects the call), nothing published on B may reach A's callback, and A's
// messages keep arriving.
func resubscribe(b broker, workers int) {
	runSeq++
	prov := b.provider(workers)
	tr, _ := prov.NewSubscriber()
	topicA := fmt.Sprintf("verif.again%d.A", runSeq)
	topicB := fmt.Sprintf("verif.again%d.B", runSeq)
	var mu sync.Mutex
	var atA, atB []string
	read := func(log *[]string) frugal.FAsyncCallback {
		return func(t thrift.TTransport) error {
			bts, _ := io.ReadAll(t)
			mu.Lock()
			*log = append(*log, string(bts))
			mu.Unlock()
			return nil
		}
	}
	if err := tr.Subscribe(topicA, read(&atA)); err != nil {
		fmt.Fprintln(os.Stderr, "subscribe A:", err)
		os.Exit(2)
	}
	err2 := tr.Subscribe(topicB, read(&atB))
	// (STOMP subscriptions become live asynchronously: the round is repeated until topic A's message arrives)
	sawForA := func() bool {
		mu.Lock()
		defer mu.Unlock()
		for _, m := range atA {
			if m == "for-A" {
				return true
			}
		}
		return false
	}
	for round, dl := 0, time.Now().Add(10*time.Second); !sawForA() && time.Now().Before(dl) && (round == 0 || b.name() == "stomp"); round++ {
		for i := 0; i < 3; i++ {
			b.raw(topicB, wire.Frame([]byte(fmt.Sprintf("for-B-%d", i))))
		}
		b.raw(topicA, wire.Frame([]byte("for-A")))
		b.flush()
		for w := time.Now().Add(map[bool]time.Duration{true: 50 * time.Millisecond, false: 3 * time.Second}[b.name() == "stomp"]); !sawForA() && time.Now().Before(w); {
			time.Sleep(200 * time.Microsecond)
		}
	}
	time.Sleep(2 * time.Millisecond)
	mu.Lock()
	gotA := append([]string(nil), atA...)
	mu.Unlock()
	replay := map[string]interface{}{"transport": b.name(), "workers": workers, "scenario": "Subscribe(A); Subscribe(B) on the same transport; publish on B, then on A", "second_subscribe_error": fmt.Sprint(err2)}
	var foreign []string
	sawA := false
	for _, m := range gotA {
		if m == "for-A" {
			sawA = true
		} else {
			foreign = append(foreign, m)
		}
	}
	if len(foreign) > 0 {
		res.Violations = append(res.Violations, Violation{b.name() + "/foreign-after-second-subscribe", fmt.Sprintf("%s, %d worker(s): after a second Subscribe on the same transport (answer: %v) the callback of topic A received %v, which were published on topic B", b.name(), workers, err2, foreign), replay})
	}
	if !sawA {
		res.Violations = append(res.Violations, Violation{b.name() + "/message-lost-after-second-subscribe", fmt.Sprintf("%s, %d worker(s): after a second Subscribe on the same transport (answer: %v) a message published on topic A was not delivered (callback saw %v)", b.name(), workers, err2, gotA), replay})
	}
	if b.name() != "stomp" {
		d := make(chan struct{})
		go func() { tr.Unsubscribe(); close(d) }()
		select {
		case <-d:
		case <-time.After(time.Second):
		}
	}
	res.Runs++
}

func kindsText(c Case) string {
	if c.Stall {
		return fmt.Sprintf("%d x ok behind a held handler", len(c.Kinds))
	}
	return fmt.Sprint(c.Kinds)
}

func runCase(b broker, workers int, c Case) {
	runSeq++
	user := fmt.Sprintf("u%d", runSeq)
	topic := "verif." + user + ".Events.ItemAdded"
	prov := b.provider(workers)
	var mu sync.Mutex
	var log []delivery
	var events []string
	ev := func(s string) { events = append(events, s) }
	sub := verifrpc.NewEventsSubscriber(prov)
	stallCh := make(chan struct{})
	probe1, probe2 := make(chan struct{}, 1), make(chan struct{}, 1)
	s, err := sub.SubscribeItemAdded(user, func(ctx frugal.FContext, it *verifbase.Item) {
		if it.ID < 0 {
			select { // a probe of the driver: the subscription is live
			case probe1 <- struct{}{}:
			default:
			}
			return
		}
		mu.Lock()
		first := len(log) == 0
		log = append(log, delivery{it.ID, ctx.RequestHeaders(), ctx.CorrelationID(), it, time.Now()})
		ev(fmt.Sprintf("{\"ev\":\"deliver\",\"id\":%d,\"kind\":\"\"}", it.ID))
		mu.Unlock()
		if c.Stall && first {
			select {
			case <-stallCh:
			case <-time.After(20 * time.Second):
			}
		}
	})
	if err != nil {
		fmt.Fprintln(os.Stderr, "subscribe:", err)
		os.Exit(2)
	}
	// a second subscription from the SAME provider / transport factory on the neighbouring topic: what is
	// "foreign" for the first subscriber is this one's traffic, and nothing of the first may ever reach it
	var log2 []int64
	s2, err := sub.SubscribeItemAdded(user+"x", func(ctx frugal.FContext, it *verifbase.Item) {
		if it.ID < 0 {
			select {
			case probe2 <- struct{}{}:
			default:
			}
			return
		}
		mu.Lock()
		log2 = append(log2, it.ID)
		mu.Unlock()
	})
	if err != nil {
		fmt.Fprintln(os.Stderr, "subscribe 2:", err)
		os.Exit(2)
	}
	pub := verifrpc.NewEventsPublisher(prov)
	pub.Open()
	if b.name() == "stomp" {
		// SUBSCRIBE is asynchronous in go-stomp: publish probes (negative ids, not part of the run) until both subscriptions
		// deliver - "published while subscribed" must not depend on how loaded the machine is
		for which, ch := range []chan struct{}{probe1, probe2} {
			live := false
			for dl := time.Now().Add(10 * time.Second); !live && time.Now().Before(dl); {
				pub.PublishItemAdded(frugal.NewFContext("probe"), user+[]string{"", "x"}[which], &verifbase.Item{ID: -1})
				select {
				case <-ch:
					live = true
				case <-time.After(20 * time.Millisecond):
				}
			}
			if !live {
				fmt.Fprintln(os.Stderr, "stomp subscription did not become live within 10 s")
				os.Exit(2)
			}
		}
		time.Sleep(25 * time.Millisecond) // let late duplicates of the probes drain (they are ignored anyway)
	}
	replay := map[string]interface{}{"transport": b.name(), "workers": workers, "case": c}
	fail := func(key, text string) {
		res.Violations = append(res.Violations, Violation{b.name() + "/" + key, fmt.Sprintf("%s, %d worker(s), kinds %v, unsubscribe before #%d: %s", b.name(), workers, kindsText(c), c.Unsub, text), replay})
	}
	next := int64(0)          // sequential message number (trace ids)
	caseID := map[int64]int{} // message number -> position in c.Kinds (1-based), 0 for sentinels
	countDelivered := func() int { mu.Lock(); defer mu.Unlock(); return len(log) }
	waitFor := func(id int64, d time.Duration) bool {
		dl := time.Now().Add(d)
		for {
			mu.Lock()
			for _, x := range log {
				if x.id == id {
					mu.Unlock()
					return true
				}
			}
			mu.Unlock()
			if time.Now().After(dl) {
				return false
			}
			time.Sleep(100 * time.Microsecond)
		}
	}
	publish := func(kind string, pos int) int64 {
		next++
		id := next
		caseID[id] = pos
		mu.Lock()
		ev(fmt.Sprintf("{\"ev\":\"pub\",\"id\":%d,\"kind\":%q}", id, kind))
		mu.Unlock()
		res.Published++
		switch kind {
		case "ok":
			ctx := frugal.NewFContext(fmt.Sprintf("cid-%d", id))
			ctx.AddRequestHeader("k", fmt.Sprintf("v%d", id))
			ctx.AddRequestHeader("empty", "")
			if err := pub.PublishItemAdded(ctx, user, itemFor(id)); err != nil {
				fail("publish-error", err.Error())
			}
		case "short":
			b.raw(topic, make([]byte, int(id)%4))
		case "badhdr":
			b.raw(topic, wire.Frame([]byte{9, 0, 0, 0, 0, 1, 2, 3}))
		case "wrongop":
			b.raw(topic, wrongOpMsg())
		case "foreign":
			// a well-formed ItemAdded message for another user: another topic
			ctx := frugal.NewFContext("foreign")
			pub.PublishItemAdded(ctx, user+"x", itemFor(id))
		}
		b.flush()
		return id
	}
	unsubscribed := false
	sentinels := map[int64]bool{}
	quiesce := func() bool {
		id := publish("ok", 0)
		sentinels[id] = true
		return waitFor(id, 6*time.Second)
	}
	alive := true
	for i, k := range c.Kinds {
		if c.Unsub == i+1 {
			if !quiesce() {
				fail("sentinel-lost", fmt.Sprintf("a well-formed message published after %v was never delivered", c.Kinds[:i]))
				alive = false
			}
			if err := s.Unsubscribe(); err != nil {
				fail("unsubscribe-error", err.Error())
			}
			mu.Lock()
			ev("{\"ev\":\"unsub\",\"id\":0,\"kind\":\"\"}")
			mu.Unlock()
			unsubscribed = true
		}
		publish(k, i+1)
	}
	close(stallCh)
	if !unsubscribed {
		if alive && !quiesce() {
			fail("sentinel-lost", "a well-formed message published after the sequence was never delivered (a bad message stopped delivery)")
		}
		// other workers may still be handling earlier messages
		want := len(c.Expect) + len(sentinels)
		for dl := time.Now().Add(400*time.Millisecond + time.Duration(len(c.Kinds))*time.Millisecond); countDelivered() < want && time.Now().Before(dl); {
			time.Sleep(200 * time.Microsecond)
		}
	} else {
		time.Sleep(15 * time.Millisecond)
	}
	time.Sleep(time.Millisecond)
	mu.Lock()
	var got []int
	for _, d := range log {
		if sentinels[d.id] {
			continue
		}
		pos := caseID[d.id]
		got = append(got, pos)
		// intact: payload and the publisher's headers
		if !reflect.DeepEqual(d.item, itemFor(d.id)) {
			fail("payload-changed", fmt.Sprintf("message %d arrived as %+v", d.id, d.item))
		}
		if d.hdr["k"] != fmt.Sprintf("v%d", d.id) || d.cid != fmt.Sprintf("cid-%d", d.id) || d.hdr["_topic_user"] != user {
			fail("headers-changed", fmt.Sprintf("message %d arrived with headers %v cid %q", d.id, d.hdr, d.cid))
		}
		if v, ok := d.hdr["empty"]; !ok || v != "" {
			fail("headers-changed", fmt.Sprintf("message %d lost its empty-valued header: %v", d.id, d.hdr))
		}
	}
	res.Delivered += len(log)
	evs := append([]string(nil), events...)
	// the neighbour got exactly the messages published on its topic, each once
	var wantForeign, gotForeign []int
	for id, pos := range caseID {
		if pos > 0 && c.Kinds[pos-1] == "foreign" {
			wantForeign = append(wantForeign, int(id))
		}
	}
	for _, id := range log2 {
		gotForeign = append(gotForeign, int(id))
	}
	mu.Unlock()
	sort.Ints(wantForeign)
	if !unsubscribed {
		// give the neighbour's worker a moment for the last message
		for dl := time.Now().Add(300 * time.Millisecond); time.Now().Before(dl); time.Sleep(200 * time.Microsecond) {
			mu.Lock()
			n := len(log2)
			mu.Unlock()
			if n >= len(wantForeign) {
				break
			}
		}
		mu.Lock()
		gotForeign = gotForeign[:0]
		for _, id := range log2 {
			gotForeign = append(gotForeign, int(id))
		}
		mu.Unlock()
	}
	sort.Ints(gotForeign)
	if len(wantForeign) == 0 {
		wantForeign = []int{}
	}
	if len(gotForeign) == 0 {
		gotForeign = []int{}
	}
	if !reflect.DeepEqual(gotForeign, wantForeign) {
		fail("neighbour-topic", fmt.Sprintf("a second subscriber of the same provider on the neighbouring topic saw messages %v, published there were %v (messages crossed topics or were lost)", gotForeign, wantForeign))
	}
	exp := append([]int(nil), c.Expect...)
	cmpGot := append([]int(nil), got...)
	if workers > 1 {
		sort.Ints(cmpGot)
	}
	if len(cmpGot) == 0 {
		cmpGot = []int{}
	}
	if len(exp) == 0 {
		exp = []int{}
	}
	if !reflect.DeepEqual(cmpGot, exp) {
		key := "handler-log"
		switch {
		case len(cmpGot) < len(exp):
			key = "message-lost"
		case len(cmpGot) > len(exp):
			key = "extra-delivery"
		default:
			key = "order"
		}
		fail(key, fmt.Sprintf("handler saw messages %v (positions in the sequence), the specification says %v", got, c.Expect))
	}
	if b.name() != "stomp" {
		d2 := make(chan struct{})
		go func() { s2.Unsubscribe(); close(d2) }()
		select {
		case <-d2:
		case <-time.After(time.Second):
		}
	}
	if !unsubscribed && b.name() != "stomp" {
		d := make(chan struct{})
		go func() { s.Unsubscribe(); close(d) }()
		select {
		case <-d:
		case <-time.After(time.Second):
			res.Notes = append(res.Notes, b.name()+": Unsubscribe did not return within 1 s at the end of a run")
		}
	}
	if tw != nil && b.name() == "nats" && !c.Stall {
		for _, e := range evs {
			tw.WriteString(e + "\n")
		}
		tw.WriteString("{\"ev\":\"reset\",\"id\":0,\"kind\":\"\"}\n")
	}
	res.Runs++
	if len(res.Samples) < 3 && len(c.Kinds) >= 3 {
		res.Samples = append(res.Samples, map[string]interface{}{"transport": b.name(), "workers": workers, "kinds": c.Kinds, "unsub": c.Unsub, "expect": c.Expect, "handler_saw": got})
	}
}

func main() {
	in := flag.String("in", "", "pubsub_cases.json")
	out := flag.String("out", "results.json", "")
	trace := flag.String("trace", "", "")
	transports := flag.String("transports", "nats,stomp", "")
	workers := flag.String("workers", "1,2", "")
	stride := flag.Int("stride", 1, "")
	offset := flag.Int("offset", 0, "")
	flag.Parse()
	logrus.SetOutput(io.Discard)
	logrus.SetLevel(logrus.PanicLevel)
	raw, err := os.ReadFile(*in)
	if err != nil {
		fmt.Fprintln(os.Stderr, err)
		os.Exit(2)
	}
	var cases []Case
	if err := json.Unmarshal(raw, &cases); err != nil {
		fmt.Fprintln(os.Stderr, err)
		os.Exit(2)
	}
	if *trace != "" {
		f, _ := os.Create(*trace)
		defer f.Close()
		tw = bufio.NewWriter(f)
		defer tw.Flush()
	}
	var ws []int
	for _, w := range splitComma(*workers) {
		var n int
		fmt.Sscan(w, &n)
		ws = append(ws, n)
	}
	for _, t := range splitComma(*transports) {
		var b broker
		switch t {
		case "nats":
			srv, err := brokers.StartNats()
			if err != nil {
				os.Exit(2)
			}
			sc, _ := srv.Conn()
			pc, _ := srv.Conn()
			b = &natsBroker{srv, sc, pc}
		case "stomp":
			addr, _, err := brokers.StartStomp()
			if err != nil {
				os.Exit(2)
			}
			dial := func() *stomp.Conn {
				nc, err := net.Dial("tcp", addr)
				if err != nil {
					os.Exit(2)
				}
				c, err := stomp.Connect(nc)
				if err != nil {
					os.Exit(2)
				}
				return c
			}
			b = &stompBroker{dial(), dial()}
		}
		for _, w := range ws {
			if t == "stomp" && w != 1 {
				continue
			}
			resubscribe(b, w)
			for i, c := range cases {
				if (i+*offset)%*stride != 0 {
					continue
				}
				if t == "stomp" && c.Unsub != 0 {
					// the go-stomp test server never sends the RECEIPT go-stomp's Unsubscribe waits for:
					// Unsubscribe cannot be exercised against this broker
					continue
				}
				if len(res.Violations) >= 12 {
					break
				}
				runCase(b, w, c)
			}
		}
	}
	bts, _ := json.MarshalIndent(res, "", " ")
	os.WriteFile(*out, bts, 0o644)
}

func splitComma(s string) []string {
	var out []string
	cur := ""
	for _, r := range s {
		if r == ',' {
			out = append(out, cur)
			cur = ""
		} else {
			cur += string(r)
		}
	}
	if cur != "" {
		out = append(out, cur)
	}
	return out
}
