// Command ctxcheck is the conformance driver of the Context specification:
// "replay" (C17) steps TLC behaviours through real FContexts comparing the
// full state of every live context after each step; "concurrent" (C17) runs
// shared-context workloads for the race detector and checks op-id uniqueness;
// "e2e" (C09) sends TLC-enumerated header / cid / timeout cases through the
// generated client and server over every transport and protocol.
package main

import (
	"bufio"
	"encoding/json"
	"errors"
	"flag"
	"fmt"
	"io"
	"os"
	"reflect"
	"sort"
	"strconv"
	"strings"
	"sync"
	"time"

	frugal "github.com/Workiva/frugal/lib/go"
	"github.com/apache/thrift/lib/go/thrift"
	"github.com/sirupsen/logrus"

	"verifharness/gen/verifbase"
	"verifharness/gen/verifrpc"
	"verifharness/internal/rig"
)

// smap decodes a TLC function printed as JSON: {} arrives as [] when empty.
type smap map[string]string

func (m *smap) UnmarshalJSON(b []byte) error {
	*m = smap{}
	s := strings.TrimSpace(string(b))
	if strings.HasPrefix(s, "[") {
		return nil
	}
	raw := map[string]string{}
	if err := json.Unmarshal(b, &raw); err != nil {
		return err
	}
	for k, v := range raw {
		(*m)[real(k)] = real(v)
	}
	return nil
}

// real maps the specification's ASCII tokens to the strings used on real contexts (multi-byte, empty).
func real(s string) string {
	switch s {
	case "u8":
		return "ключ-é"
	case "u8v":
		return "值-ü"
	}
	return s
}

type CtxState struct {
	Req     smap `json:"req"`
	Resp    smap `json:"resp"`
	Eph     smap `json:"eph"`
	Op      int  `json:"op"`
	Cid     int  `json:"cid"`
	Timeout int  `json:"timeout"`
	RespOp  int  `json:"respop"`
}

type postMap map[string]CtxState

func (p *postMap) UnmarshalJSON(b []byte) error {
	*p = postMap{}
	s := strings.TrimSpace(string(b))
	if strings.HasPrefix(s, "[") {
		return nil
	}
	raw := map[string]CtxState{}
	if err := json.Unmarshal(b, &raw); err != nil {
		return err
	}
	*p = raw
	return nil
}

type Step struct {
	A    string  `json:"a"`
	C    int     `json:"c"`
	S    int     `json:"s"`
	N    string  `json:"n"`
	V    string  `json:"v"`
	Post postMap `json:"post"`
}

type Violation struct {
	Key    string      `json:"key"`
	Text   string      `json:"text"`
	Replay interface{} `json:"replay"`
}

type Results struct {
	Runs       int           `json:"runs"`
	Steps      int           `json:"steps"`
	Oversize   int           `json:"oversize_replies"`
	Violations []Violation   `json:"violations"`
	Notes      []string      `json:"notes"`
	Samples    []interface{} `json:"samples"`
}

var res Results
var resMu sync.Mutex

func violate(key, text string, replay interface{}) {
	resMu.Lock()
	if len(res.Violations) < 30 {
		res.Violations = append(res.Violations, Violation{key, text, replay})
	}
	resMu.Unlock()
}

func user(m map[string]string) map[string]string {
	o := map[string]string{}
	for k, v := range m {
		if !strings.HasPrefix(k, "_") {
			o[k] = v
		}
	}
	return o
}

func opOf(ctx frugal.FContext) uint64 {
	s, _ := ctx.RequestHeader("_opid")
	n, _ := strconv.ParseUint(s, 10, 64)
	return n
}

var pf = rig.ProtocolFactory("binary")

type proj struct {
	Req, Resp, Eph map[string]string
	Op, RespOp     int64
	Cid            string
	Timeout        int
}

func project(ctx frugal.FContext, base uint64) proj {
	p := proj{Req: user(ctx.RequestHeaders()), Resp: user(ctx.ResponseHeaders()), Eph: map[string]string{}}
	p.Op = int64(opOf(ctx)) - int64(base)
	p.Cid = ctx.CorrelationID()
	p.Timeout = int(ctx.Timeout() / time.Millisecond)
	if s, ok := ctx.ResponseHeader("_opid"); ok {
		n, _ := strconv.ParseUint(s, 10, 64)
		p.RespOp = int64(n) - int64(base)
	}
	if e, ok := ctx.(frugal.FContextWithEphemeralProperties); ok {
		for k, v := range e.EphemeralProperties() {
			p.Eph[fmt.Sprint(k)] = fmt.Sprint(v)
		}
	}
	return p
}

func expected(s CtxState) proj {
	p := proj{Req: map[string]string{}, Resp: map[string]string{}, Eph: map[string]string{}}
	for k, v := range s.Req {
		p.Req[k] = v
	}
	for k, v := range s.Resp {
		p.Resp[k] = v
	}
	for k, v := range s.Eph {
		p.Eph[k] = v
	}
	p.Op, p.RespOp = int64(s.Op), int64(s.RespOp)
	p.Cid = fmt.Sprintf("cid-%d", s.Cid)
	p.Timeout = s.Timeout
	return p
}

// wrapped is a user-defined FContext (a decorator embedding the interface): frugal.Clone must take its
// generic path for it, and the result must still be an independent context with a new op id.
type wrapped struct{ frugal.FContext }

func replay(idx int, beh []Step, wrap bool) {
	// the op-id counter is global: this driver is the only creator, so the k-th allocation is base+k
	probe := frugal.NewFContext("probe")
	base := opOf(probe)
	ctxs := map[int]frugal.FContext{}
	for i, s := range beh {
		switch s.A {
		case "New":
			ctxs[s.C] = frugal.NewFContext("cid-" + s.V)
			if wrap {
				ctxs[s.C] = wrapped{ctxs[s.C]}
			}
		case "Clone":
			ctxs[s.C] = frugal.Clone(ctxs[s.S])
			if wrap {
				ctxs[s.C] = wrapped{ctxs[s.C]}
			}
		case "AddReq":
			ctxs[s.C].AddRequestHeader(real(s.N), real(s.V))
		case "AddResp":
			ctxs[s.C].AddResponseHeader(real(s.N), real(s.V))
		case "AddEph":
			if e, ok := ctxs[s.C].(frugal.FContextWithEphemeralProperties); ok {
				e.AddEphemeralProperty(real(s.N), real(s.V))
			}
		case "SetTimeout":
			ms, _ := strconv.Atoi(s.V)
			ctxs[s.C].SetTimeout(time.Duration(ms) * time.Millisecond)
		case "ServerRead":
			// the caller's context c travels over the wire and becomes the handler's context s
			buf := thrift.NewTMemoryBuffer()
			if err := pf.GetProtocol(buf).WriteRequestHeader(ctxs[s.C]); err != nil {
				violate("replay/write-request-header", err.Error(), beh[:i+1])
				return
			}
			hc, err := pf.GetProtocol(buf).ReadRequestHeader()
			if err != nil {
				violate("replay/read-request-header", err.Error(), beh[:i+1])
				return
			}
			ctxs[s.S] = hc
		case "ClientMerge":
			buf := thrift.NewTMemoryBuffer()
			if err := pf.GetProtocol(buf).WriteResponseHeader(ctxs[s.S]); err != nil {
				violate("replay/write-response-header", err.Error(), beh[:i+1])
				return
			}
			if err := pf.GetProtocol(buf).ReadResponseHeader(ctxs[s.C]); err != nil {
				violate("replay/read-response-header", err.Error(), beh[:i+1])
				return
			}
		}
		res.Steps++
		// full projected state of ALL live contexts: aliasing shows up as a change in the wrong context
		if len(s.Post) != len(ctxs) {
			violate("replay/live-set", fmt.Sprintf("step %d (%s): %d live contexts, specification %d", i, s.A, len(ctxs), len(s.Post)), beh[:i+1])
			return
		}
		for name, want := range s.Post {
			id, _ := strconv.Atoi(name[1:])
			got := project(ctxs[id], base)
			exp := expected(want)
			if wrap {
				// a decorated context has no ephemeral properties
				got.Eph, exp.Eph = map[string]string{}, map[string]string{}
			}
			if !reflect.DeepEqual(got, exp) {
				field := "state"
				switch {
				case got.Op != exp.Op:
					field = "opid"
				case !reflect.DeepEqual(got.Req, exp.Req):
					field = "request-headers"
				case !reflect.DeepEqual(got.Resp, exp.Resp):
					field = "response-headers"
				case !reflect.DeepEqual(got.Eph, exp.Eph):
					field = "ephemeral-properties"
				case got.Timeout != exp.Timeout:
					field = "timeout"
				case got.Cid != exp.Cid:
					field = "cid"
				case got.RespOp != exp.RespOp:
					field = "response-opid"
				}
				pre := "replay/"
				if wrap {
					pre = "replay-decorated-context/"
				}
				violate(pre+s.A+"/"+field, fmt.Sprintf("behaviour %d after step %d (%s c=%d s=%d %q=%q): context %s is %+v, the specification says %+v", idx, i, s.A, s.C, s.S, s.N, s.V, name, got, exp), beh[:i+1])
				return
			}
		}
	}
	res.Runs++
}

// concurrent: N goroutines mutate shared contexts on disjoint keys, clone and create contexts; the final
// state is schedule-independent; built with -race the detector checks the atomicity the specification assumes.
func concurrent(workers, perWorker int) {
	shared := []frugal.FContext{frugal.NewFContext("shared-0"), frugal.NewFContext("shared-1")}
	var wg sync.WaitGroup
	ids := make([][]uint64, workers)
	for w := 0; w < workers; w++ {
		w := w
		wg.Add(1)
		go func() {
			defer wg.Done()
			for i := 0; i < perWorker; i++ {
				s := shared[i%2]
				k := fmt.Sprintf("w%d-%d", w, i%7)
				s.AddRequestHeader(k, strconv.Itoa(i))
				s.AddResponseHeader(k, strconv.Itoa(i))
				s.(frugal.FContextWithEphemeralProperties).AddEphemeralProperty(k, i)
				s.RequestHeader(k)
				s.ResponseHeaders()
				s.RequestHeaders()
				s.SetTimeout(time.Duration(100+w) * time.Millisecond)
				s.Timeout()
				s.CorrelationID()
				c := frugal.Clone(s)
				ids[w] = append(ids[w], opOf(c))
				c.AddRequestHeader("clone-only", "1")
				n := frugal.NewFContext("")
				ids[w] = append(ids[w], opOf(n))
				if i%5 == 0 {
					buf := thrift.NewTMemoryBuffer()
					pf.GetProtocol(buf).WriteRequestHeader(s)
					if hc, err := pf.GetProtocol(buf).ReadRequestHeader(); err == nil {
						ids[w] = append(ids[w], opOf(hc))
					}
				}
			}
		}()
	}
	wg.Wait()
	seen := map[uint64]bool{}
	total := 0
	for _, l := range ids {
		for _, id := range l {
			total++
			if seen[id] {
				violate("concurrent/duplicate-opid", fmt.Sprintf("op id %d was handed out twice under concurrent creation / cloning / receipt (%d workers)", id, workers), nil)
			}
			seen[id] = true
		}
	}
	for si, s := range shared {
		if _, ok := s.RequestHeader("clone-only"); ok {
			violate("concurrent/clone-aliases-original", "a header added to a clone appeared on the original", nil)
		}
		h := s.RequestHeaders()
		for w := 0; w < workers; w++ {
			for k := 0; k < 7 && k < perWorker; k++ {
				key := fmt.Sprintf("w%d-%d", w, k)
				// last write to this key by worker w on shared[si]
				last := -1
				for i := 0; i < perWorker; i++ {
					if i%2 == si && i%7 == k {
						last = i
					}
				}
				if last >= 0 && h[key] != strconv.Itoa(last) {
					violate("concurrent/lost-header-write", fmt.Sprintf("shared context %d: header %s is %q, expected %d", si, key, h[key], last), nil)
				}
			}
		}
	}
	res.Runs++
	res.Steps += total
}

// ---------------------------------------------------------------- C09 end to end

type E2ECase struct {
	Req         smap   `json:"req"`
	HandlerSets smap   `json:"handler_sets"`
	CallerHad   smap   `json:"caller_had"`
	Cid         string `json:"cid"`
	Timeout     int    `json:"timeout"`
	HandlerSees smap   `json:"handler_sees"`
	CallerGets  smap   `json:"caller_gets"`
}

func sorted(m map[string]string) string {
	ks := make([]string, 0, len(m))
	for k := range m {
		ks = append(ks, k)
	}
	sort.Strings(ks)
	var b strings.Builder
	for _, k := range ks {
		fmt.Fprintf(&b, "%q=%q ", k, m[k])
	}
	return b.String()
}

func e2e(path string, kinds, protos []string, stride, offset int) {
	raw, err := os.ReadFile(path)
	if err != nil {
		fmt.Fprintln(os.Stderr, err)
		os.Exit(2)
	}
	var cases []E2ECase
	if err := json.Unmarshal(raw, &cases); err != nil {
		fmt.Fprintln(os.Stderr, err)
		os.Exit(2)
	}
	type combo struct {
		env *rig.Env
		cl  *verifrpc.FStoreClient
		cf  func()
	}
	var combos []combo
	for _, k := range kinds {
		for _, p := range protos {
			env, err := rig.Start(k, p)
			if err != nil {
				fmt.Fprintln(os.Stderr, err)
				os.Exit(2)
			}
			cl, _, cf, err := env.Client()
			if err != nil {
				fmt.Fprintln(os.Stderr, err)
				os.Exit(2)
			}
			combos = append(combos, combo{env, cl, cf})
		}
	}
	handlerOps := map[string]bool{}
	for i, c := range cases {
		if (i+offset)%stride != 0 {
			continue
		}
		co := combos[i%len(combos)]
		label := co.env.Kind + "/" + co.env.Proto
		ctx := frugal.NewFContext(c.Cid)
		for k, v := range c.Req {
			ctx.AddRequestHeader(k, v)
		}
		for k, v := range c.CallerHad {
			ctx.AddResponseHeader(k, v)
		}
		ctx.SetTimeout(time.Duration(c.Timeout) * time.Millisecond)
		callerOp, _ := ctx.RequestHeader("_opid")
		callerCid := ctx.CorrelationID()
		sets := map[string]string(c.HandlerSets)
		co.env.Handler.Script = func(string, int, []interface{}) rig.Outcome { return rig.Outcome{Kind: "return", RespHdr: sets} }
		before := len(co.env.Handler.Snapshot())
		method := i % 3
		var cerr error
		// Context!ServerWrite holds for EVERY response, also for the exception that replaces a result too large for the
		// server's reply buffer (NATS: 1 MB): it carries the op id, the correlation id and the headers the handler set
		oversize := co.env.Kind == "nats" && len(c.HandlerSets) > 0 && (i/len(combos))%4 == 0
		if oversize {
			method = 3
			co.env.Handler.Script = func(string, int, []interface{}) rig.Outcome {
				return rig.Outcome{Kind: "return", RespHdr: sets, BigReply: 1100000}
			}
		}
		switch method {
		case 3:
			_, cerr = co.cl.Echo(ctx, []byte("x"))
			var te thrift.TTransportException
			if cerr == nil || !errors.As(cerr, &te) || te.TypeId() != frugal.TRANSPORT_EXCEPTION_RESPONSE_TOO_LARGE {
				violate("e2e/oversize-reply-outcome/"+label, fmt.Sprintf("%s: a 1.1 MB result over NATS: the caller got %v, must be RESPONSE_TOO_LARGE", label, cerr), map[string]interface{}{"transport": co.env.Kind, "protocol": co.env.Proto, "case": c})
			}
			cerr = nil
			if got, _ := ctx.ResponseHeader("_cid"); got != callerCid {
				violate("e2e/oversize-reply-cid/"+label, fmt.Sprintf("%s: the RESPONSE_TOO_LARGE reply carried correlation id %q, the request had %q", label, got, callerCid), map[string]interface{}{"transport": co.env.Kind, "protocol": co.env.Proto, "case": c})
			}
			res.Oversize++
		case 0:
			_, cerr = co.cl.Ping(ctx, "x") // inherited method
		case 1:
			_, cerr = co.cl.Get(ctx, 7)
		case 2:
			cerr = co.cl.Put(ctx, &verifbase.Item{ID: 1})
		}
		replayObj := map[string]interface{}{"transport": co.env.Kind, "protocol": co.env.Proto, "case": c}
		if cerr != nil {
			violate("e2e/call-failed/"+label, fmt.Sprintf("%s: call failed: %v", label, cerr), replayObj)
			continue
		}
		calls := co.env.Handler.Snapshot()
		if len(calls) != before+1 {
			violate("e2e/handler-count/"+label, fmt.Sprintf("%s: handler ran %d times", label, len(calls)-before), replayObj)
			continue
		}
		call := calls[len(calls)-1]
		if got := user(call.ReqHdr); !reflect.DeepEqual(got, map[string]string(c.HandlerSees)) {
			violate("e2e/handler-headers/"+label, fmt.Sprintf("%s: handler saw user headers {%s}, the specification says {%s}", label, sorted(got), sorted(c.HandlerSees)), replayObj)
		}
		if call.Cid != callerCid {
			violate("e2e/handler-cid/"+label, fmt.Sprintf("%s: handler saw correlation id %q, caller's is %q", label, call.Cid, callerCid), replayObj)
		}
		if int(call.Timeout/time.Millisecond) != c.Timeout {
			violate("e2e/handler-timeout/"+label, fmt.Sprintf("%s: handler saw timeout %v, caller set %d ms", label, call.Timeout, c.Timeout), replayObj)
		}
		if call.OpID == callerOp || call.OpID == "" || handlerOps[call.OpID] {
			violate("e2e/handler-opid-not-fresh/"+label, fmt.Sprintf("%s: handler context op id %q (caller's %q, already seen: %v)", label, call.OpID, callerOp, handlerOps[call.OpID]), replayObj)
		}
		handlerOps[call.OpID] = true
		if got := user(ctx.ResponseHeaders()); !reflect.DeepEqual(got, map[string]string(c.CallerGets)) {
			violate("e2e/caller-response-headers/"+label, fmt.Sprintf("%s: caller's response headers after return {%s}, the specification says {%s}", label, sorted(got), sorted(c.CallerGets)), replayObj)
		}
		if op, _ := ctx.RequestHeader("_opid"); op != callerOp {
			violate("e2e/caller-opid-changed/"+label, fmt.Sprintf("%s: the caller's op id changed from %s to %s", label, callerOp, op), replayObj)
		}
		res.Runs++
		if len(res.Samples) < 3 && len(c.Req) > 1 && len(c.HandlerSets) > 0 {
			res.Samples = append(res.Samples, replayObj)
		}
	}
	// pub/sub: the subscriber sees the publisher's headers plus _topic_<var>
	for _, co := range combos {
		co.cf()
		co.env.Stop()
	}
}

func pubsub(path string, stride int) {
	raw, _ := os.ReadFile(path)
	var cases []E2ECase
	json.Unmarshal(raw, &cases)
	ns, err := rig.SharedNats()
	if err != nil {
		os.Exit(2)
	}
	sc, _ := ns.Conn()
	pc, _ := ns.Conn()
	for pi, proto := range []string{"binary", "compact", "json"} {
		ppf := rig.ProtocolFactory(proto)
		prov := frugal.NewFScopeProvider(frugal.NewFNatsPublisherTransportFactory(pc), frugal.NewFNatsSubscriberTransportFactory(sc), ppf)
		type seen struct {
			hdr map[string]string
			cid string
			to  time.Duration
			op  string
		}
		ch := make(chan seen, 4)
		sub := verifrpc.NewEventsSubscriber(prov)
		user1 := fmt.Sprintf("c09u%d", pi)
		s, err := sub.SubscribeCount(user1, func(ctx frugal.FContext, n int32) {
			h := ctx.RequestHeaders()
			ch <- seen{h, ctx.CorrelationID(), ctx.Timeout(), h["_opid"]}
		})
		if err != nil {
			os.Exit(2)
		}
		pub := verifrpc.NewEventsPublisher(prov)
		pub.Open()
		for i, c := range cases {
			if i%stride != 0 {
				continue
			}
			ctx := frugal.NewFContext(c.Cid)
			for k, v := range c.Req {
				ctx.AddRequestHeader(k, v)
			}
			ctx.SetTimeout(time.Duration(c.Timeout) * time.Millisecond)
			pubOp, _ := ctx.RequestHeader("_opid")
			if err := pub.PublishCount(ctx, user1, int32(i)); err != nil {
				violate("pubsub/publish-failed", err.Error(), c)
				continue
			}
			pc.Flush()
			select {
			case g := <-ch:
				want := map[string]string{}
				for k, v := range c.HandlerSees {
					want[k] = v
				}
				if got := user(g.hdr); !reflect.DeepEqual(got, want) {
					violate("pubsub/subscriber-headers/"+proto, fmt.Sprintf("%s: subscriber saw user headers {%s}, publisher set {%s}", proto, sorted(got), sorted(want)), c)
				}
				if g.hdr["_topic_user"] != user1 {
					violate("pubsub/topic-header/"+proto, fmt.Sprintf("%s: subscriber saw _topic_user=%q, expected %q", proto, g.hdr["_topic_user"], user1), c)
				}
				if g.cid != ctx.CorrelationID() {
					violate("pubsub/cid/"+proto, fmt.Sprintf("%s: subscriber saw cid %q, publisher %q", proto, g.cid, ctx.CorrelationID()), c)
				}
				if int(g.to/time.Millisecond) != c.Timeout {
					violate("pubsub/timeout/"+proto, fmt.Sprintf("%s: subscriber saw timeout %v, publisher %d ms", proto, g.to, c.Timeout), c)
				}
				if g.op == pubOp || g.op == "" {
					violate("pubsub/opid-not-fresh/"+proto, fmt.Sprintf("%s: subscriber context op id %q, publisher's %q", proto, g.op, pubOp), c)
				}
			case <-time.After(2 * time.Second):
				violate("pubsub/not-delivered/"+proto, "message not delivered", c)
			}
			res.Runs++
		}
		s.Unsubscribe()
	}
}

func main() {
	mode := flag.String("mode", "replay", "replay | concurrent | e2e")
	in := flag.String("in", "", "")
	out := flag.String("out", "results.json", "")
	kinds := flag.String("transports", "mem,tcp,http,nats", "")
	protos := flag.String("protocols", "binary,compact,json", "")
	stride := flag.Int("stride", 1, "")
	offset := flag.Int("offset", 0, "")
	workers := flag.Int("workers", 16, "")
	per := flag.Int("per", 2000, "")
	flag.Parse()
	logrus.SetOutput(io.Discard)
	logrus.SetLevel(logrus.PanicLevel)
	switch *mode {
	case "replay":
		f, err := os.Open(*in)
		if err != nil {
			fmt.Fprintln(os.Stderr, err)
			os.Exit(2)
		}
		sc := bufio.NewScanner(f)
		sc.Buffer(make([]byte, 1<<20), 1<<27)
		i := 0
		for sc.Scan() {
			var beh []Step
			if err := json.Unmarshal(sc.Bytes(), &beh); err != nil {
				fmt.Fprintln(os.Stderr, "bad behaviour:", err)
				os.Exit(2)
			}
			replay(i, beh, false)
			var beh2 []Step
			json.Unmarshal(sc.Bytes(), &beh2)
			replay(i, beh2, true)
			if len(res.Samples) < 2 && len(beh) > 6 {
				res.Samples = append(res.Samples, json.RawMessage(append([]byte(nil), sc.Bytes()...)))
			}
			i++
		}
	case "concurrent":
		concurrent(*workers, *per)
	case "e2e":
		e2e(*in, strings.Split(*kinds, ","), strings.Split(*protos, ","), *stride, *offset)
		pubsub(*in, *stride*7)
	}
	b, _ := json.MarshalIndent(res, "", " ")
	os.WriteFile(*out, b, 0o644)
}
