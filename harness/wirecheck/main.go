// Command wirecheck drives the real header codec (protocol.go) for the Wire
// specification: "records" mode (C04) writes and reads header maps and emits
// one-step traces for TLC; "bytes" mode (C05) feeds classified byte strings to
// every function-level receiving entry point.
package main

import (
	"bytes"
	"encoding/json"
	"flag"
	"fmt"
	"io"
	"math/rand"
	"os"
	"sort"
	"time"
	"unicode/utf8"

	frugal "github.com/Workiva/frugal/lib/go"
	"github.com/apache/thrift/lib/go/thrift"
	"github.com/sirupsen/logrus"

	"verifharness/internal/wire"
)

// mapCtx is an FContext whose header maps are exactly what the test wants (no implicit _opid/_cid).
type mapCtx struct {
	req, resp map[string]string
}

func (c *mapCtx) CorrelationID() string { return c.req["_cid"] }
func (c *mapCtx) AddRequestHeader(n, v string) frugal.FContext {
	c.req[n] = v
	return c
}
func (c *mapCtx) RequestHeader(n string) (string, bool) { v, ok := c.req[n]; return v, ok }
func (c *mapCtx) RequestHeaders() map[string]string     { return cp(c.req) }
func (c *mapCtx) AddResponseHeader(n, v string) frugal.FContext {
	c.resp[n] = v
	return c
}
func (c *mapCtx) ResponseHeader(n string) (string, bool)   { v, ok := c.resp[n]; return v, ok }
func (c *mapCtx) ResponseHeaders() map[string]string       { return cp(c.resp) }
func (c *mapCtx) SetTimeout(time.Duration) frugal.FContext { return c }
func (c *mapCtx) Timeout() time.Duration                   { return time.Second }

// chunkReader hands out at most k bytes per Read call.
type chunkReader struct {
	b []byte
	k int
}

func (c *chunkReader) Read(p []byte) (int, error) {
	if len(c.b) == 0 {
		return 0, io.EOF
	}
	n := c.k
	if n > len(p) {
		n = len(p)
	}
	if n > len(c.b) {
		n = len(c.b)
	}
	copy(p, c.b[:n])
	c.b = c.b[n:]
	return n, nil
}

func cp(m map[string]string) map[string]string {
	o := make(map[string]string, len(m))
	for k, v := range m {
		o[k] = v
	}
	return o
}

type bpair [2][]int

func ints(s string) []int {
	o := make([]int, len(s))
	for i := 0; i < len(s); i++ {
		o[i] = int(s[i])
	}
	return o
}
func bints(b []byte) []int { return ints(string(b)) }
func str(a []int) string {
	b := make([]byte, len(a))
	for i, v := range a {
		b[i] = byte(v)
	}
	return string(b)
}
func pairsOf(m map[string]string) []bpair {
	keys := make([]string, 0, len(m))
	for k := range m {
		keys = append(keys, k)
	}
	sort.Strings(keys)
	out := make([]bpair, 0, len(m))
	for _, k := range keys {
		out = append(out, bpair{ints(k), ints(m[k])})
	}
	return out
}

type reader struct {
	Hdr  []bpair `json:"hdr"`
	Rest []int   `json:"rest"`
	Err  string  `json:"err"`
}

type record struct {
	ID      int               `json:"id"`
	Hdr     []bpair           `json:"hdr"`
	Uniq    []bpair           `json:"uniq"`
	Bytes   []int             `json:"bytes"`
	Payload []int             `json:"payload"`
	Readers map[string]reader `json:"readers"`
	Writers map[string][]int  `json:"writers"`
	Extra   []bpair           `json:"extra"`
	Added   []int             `json:"added"`
	UTF8    bool              `json:"utf8"`
}

type inCase struct {
	Pairs   []bpair `json:"pairs"`
	Payload []int   `json:"payload"`
}

func errStr(err error) string {
	if err == nil {
		return ""
	}
	return err.Error()
}

func writeHeaders(m map[string]string, response bool) ([]byte, error) {
	buf := thrift.NewTMemoryBuffer()
	pf := frugal.NewFProtocolFactory(thrift.NewTBinaryProtocolFactoryConf(nil))
	p := pf.GetProtocol(buf)
	ctx := &mapCtx{req: m, resp: m}
	var err error
	if response {
		err = p.WriteResponseHeader(ctx)
	} else {
		err = p.WriteRequestHeader(ctx)
	}
	return buf.Bytes(), err
}

func validUTF8(m map[string]string) bool {
	for k, v := range m {
		if !utf8ok(k) || !utf8ok(v) {
			return false
		}
	}
	return true
}

func utf8ok(s string) bool { return utf8.ValidString(s) }

func makeRecord(id int, m map[string]string, payload []byte, rng *rand.Rand) record {
	rec := record{ID: id, Hdr: pairsOf(m), Uniq: pairsOf(m), Payload: bints(payload), Readers: map[string]reader{}, Writers: map[string][]int{}, UTF8: validUTF8(m)}
	b, err := writeHeaders(cp(m), false)
	if err != nil {
		rec.Readers["writer-error"] = reader{Err: err.Error()}
	}
	rec.Bytes = bints(b)
	rb, err := writeHeaders(cp(m), true)
	if err == nil {
		rec.Writers["response-header-writer"] = bints(rb)
	}
	msg := append(append([]byte(nil), b...), payload...)
	// stream reader over an io.Reader
	{
		r := bytes.NewReader(msg)
		h, err := frugal.VerifReadHeader(r)
		rest, _ := io.ReadAll(r)
		rec.Readers["stream"] = reader{pairsOf(h), bints(rest), errStr(err)}
	}
	// stream reader over a thrift memory transport
	{
		t := &thrift.TMemoryBuffer{Buffer: bytes.NewBuffer(append([]byte(nil), msg...))}
		h, err := frugal.VerifReadHeader(t)
		rec.Readers["stream-tmemorybuffer"] = reader{pairsOf(h), bints(t.Bytes()), errStr(err)}
	}
	// stream readers that deliver the bytes in pieces (a socket, a bufio boundary): k bytes per Read
	for _, k := range []int{1, 7, 64} {
		r := &chunkReader{b: append([]byte(nil), msg...), k: k}
		h, err := frugal.VerifReadHeader(r)
		rec.Readers[fmt.Sprintf("stream-chunked-%d", k)] = reader{pairsOf(h), bints(r.b), errStr(err)}
	}
	// ReadResponseHeader merges every header but _opid into the context
	if _, has := m["_opid"]; !has {
		t := &thrift.TMemoryBuffer{Buffer: bytes.NewBuffer(append([]byte(nil), msg...))}
		p := frugal.NewFProtocolFactory(thrift.NewTBinaryProtocolFactoryConf(nil)).GetProtocol(t)
		ctx := &mapCtx{req: map[string]string{}, resp: map[string]string{}}
		err := p.ReadResponseHeader(ctx)
		rec.Readers["ReadResponseHeader"] = reader{pairsOf(ctx.resp), bints(t.Bytes()), errStr(err)}
	}
	// frame readers
	{
		h, err := frugal.VerifGetHeadersFromFrame(msg)
		rec.Readers["getHeadersFromFrame"] = reader{pairsOf(h), bints(payload), errStr(err)}
	}
	// the harness's own independent parser (documentation/protocol.md)
	{
		ps, rest, err := wire.Parse(msg)
		hm := map[string]string{}
		for _, p := range ps {
			hm[p.Name] = p.Value
		}
		rec.Readers["independent-go-parser"] = reader{pairsOf(hm), bints(rest), errStr(err)}
	}
	// addHeadersToFrame with an extra map that overrides one existing name and adds a new one
	extra := map[string]string{"added-by-verif": "1"}
	for k := range m {
		extra[k] = "override"
		break
	}
	if rng.Intn(4) == 0 {
		extra = map[string]string{}
	}
	rec.Extra = pairsOf(extra)
	added, err := frugal.VerifAddHeadersToFrame(wire.Frame(msg), cp(extra))
	if err != nil {
		rec.Readers["addHeadersToFrame-error"] = reader{Err: err.Error()}
	}
	rec.Added = bints(added)
	return rec
}

func randBytes(rng *rand.Rand, n int, mode int) string {
	b := make([]byte, n)
	for i := range b {
		switch mode {
		case 0:
			b[i] = byte('a' + rng.Intn(26))
		case 1:
			b[i] = byte(rng.Intn(256))
		default:
			b[i] = []byte{0, 1, 127, 128, 255, '_', 0xc3, 0xa9}[rng.Intn(8)]
		}
	}
	return string(b)
}

func randomMap(rng *rand.Rand) map[string]string {
	n := []int{0, 1, 2, 3, 5, 8, 20, 50}[rng.Intn(8)]
	m := map[string]string{}
	for i := 0; i < n; i++ {
		mode := rng.Intn(3)
		kl := []int{0, 1, 2, 5, 17, 64}[rng.Intn(6)]
		vl := []int{0, 1, 3, 9, 40, 200}[rng.Intn(6)]
		if n > 8 {
			kl, vl = kl%18, vl%41
		}
		k := randBytes(rng, kl, mode)
		if mode == 0 && rng.Intn(3) == 0 {
			k = []string{"_opid", "_cid", "_timeout", "é", "日本語"}[rng.Intn(5)]
		}
		m[k] = randBytes(rng, vl, rng.Intn(3))
	}
	return m
}

func main() {
	mode := flag.String("mode", "records", "records | bytes")
	in := flag.String("in", "", "")
	out := flag.String("out", "wire_recs.ndjson", "")
	nrand := flag.Int("random", 0, "")
	seed := flag.Int64("seed", 1, "")
	flag.Parse()
	logrus.SetOutput(io.Discard)
	rng := rand.New(rand.NewSource(*seed))
	switch *mode {
	case "records":
		f, err := os.Create(*out)
		if err != nil {
			fmt.Fprintln(os.Stderr, err)
			os.Exit(2)
		}
		defer f.Close()
		enc := json.NewEncoder(f)
		id := 0
		if *in != "" {
			b, err := os.ReadFile(*in)
			if err != nil {
				fmt.Fprintln(os.Stderr, err)
				os.Exit(2)
			}
			var cases []inCase
			if err := json.Unmarshal(b, &cases); err != nil {
				fmt.Fprintln(os.Stderr, "cases:", err)
				os.Exit(2)
			}
			for _, c := range cases {
				m := map[string]string{}
				for _, p := range c.Pairs {
					m[str(p[0])] = str(p[1])
				}
				id++
				enc.Encode(makeRecord(id, m, []byte(str(c.Payload)), rng))
			}
		}
		for i := 0; i < *nrand; i++ {
			id++
			pl := []byte(randBytes(rng, []int{0, 1, 5, 64}[rng.Intn(4)], 1))
			enc.Encode(makeRecord(id, randomMap(rng), pl, rng))
		}
	case "bytes":
		bytesMode(*in, *out)
	}
}
