package main

func bytesMode(in, out string) {}
