import javax.tools.*;
import com.sun.source.util.JavacTask;
import java.util.*;
import java.io.*;
public class ParseOnly {
  public static void main(String[] a) throws Exception {
    JavaCompiler c = ToolProvider.getSystemJavaCompiler();
    DiagnosticCollector<JavaFileObject> d = new DiagnosticCollector<>();
    StandardJavaFileManager fm = c.getStandardFileManager(d, null, null);
    List<File> files = new ArrayList<>();
    // arguments: files, or @list (one path per line)
    for (String s : a) { if (s.startsWith("@")) { try (BufferedReader r = new BufferedReader(new FileReader(s.substring(1)))) { String l; while ((l = r.readLine()) != null) if (!l.isEmpty()) files.add(new File(l)); } } else files.add(new File(s)); }
    JavacTask t = (JavacTask) c.getTask(null, fm, d, Arrays.asList("-proc:none"), null, fm.getJavaFileObjectsFromFiles(files));
    int n = 0; for (Object u : t.parse()) n++;
    int errs = 0; for (Diagnostic<? extends JavaFileObject> x : d.getDiagnostics()) if (x.getKind() == Diagnostic.Kind.ERROR) { errs++; System.out.println(x); }
    System.out.println("units=" + n + " errors=" + errs);
    System.exit(errs == 0 ? 0 : 1);
  }
}
