// Command mux is the conformance driver of the ClientMux specification
// (C01, C06, C13): it replays TLC behaviours through the real client transports
// using the verif gates, runs randomized concurrent sessions, and measures the
// timeout matrix.  It writes results JSON and an ndjson event trace for TLC.
package main

import (
	"bufio"
	"context"
	"encoding/json"
	"errors"
	"flag"
	"fmt"
	"io"
	"math/rand"
	"net/http"
	"net/http/httptest"
	"os"
	"strconv"
	"sync"
	"time"

	frugal "github.com/Workiva/frugal/lib/go"
	"github.com/apache/thrift/lib/go/thrift"
	"github.com/nats-io/nats.go"
	"github.com/sirupsen/logrus"

	"verifharness/internal/brokers"
	"verifharness/internal/faultio"
	"verifharness/internal/sched"
	"verifharness/internal/wire"
)

type Step struct {
	A   string `json:"a"`
	C   int    `json:"c"`
	Reg int    `json:"reg"`
}

type Violation struct {
	Prop   string      `json:"prop"`
	Key    string      `json:"key"`
	Text   string      `json:"text"`
	Replay interface{} `json:"replay"`
}

type Results struct {
	Mode        string      `json:"mode"`
	Variant     string      `json:"variant"`
	Runs        int         `json:"runs"`
	Steered     int         `json:"steered_exactly"`
	Diverged    int         `json:"diverged"`
	Steps       int         `json:"steps"`
	TraceEvents int         `json:"trace_events"`
	Violations  []Violation `json:"violations"`
	Notes       []string    `json:"notes"`
	Timing      []TimingRow `json:"timing,omitempty"`
	Samples     []string    `json:"samples"`
}

const (
	gotTimeout     = -1
	gotSendErr     = -2
	gotUnavailable = -3
	gotOtherErr    = -4
)

var (
	res      Results
	traceOut *bufio.Writer
	traceN   int
)

func emitTrace(ev string, op int, n int) {
	fmt.Fprintf(traceOut, "{\"ev\":%q,\"op\":%d,\"n\":%d}\n", ev, op, n)
	traceN++
}

func violate(prop, key, text string, replay interface{}) {
	res.Violations = append(res.Violations, Violation{prop, key, text, replay})
}

func opidOf(ctx frugal.FContext) uint64 {
	s, _ := ctx.RequestHeader("_opid")
	id, _ := strconv.ParseUint(s, 10, 64)
	return id
}

// classify maps the outcome of Request to the spec's res value.
func classify(tr thrift.TTransport, err error) (int64, string) {
	if err != nil {
		var te thrift.TTransportException
		if errors.As(err, &te) {
			switch te.TypeId() {
			case frugal.TRANSPORT_EXCEPTION_TIMED_OUT:
				return gotTimeout, err.Error()
			case frugal.TRANSPORT_EXCEPTION_SERVICE_NOT_AVAILABLE:
				return gotUnavailable, err.Error()
			}
		}
		if errors.Is(err, faultio.ErrInjected) {
			return gotSendErr, err.Error()
		}
		return gotOtherErr, err.Error()
	}
	if tr == nil {
		return gotOtherErr, "nil transport and nil error"
	}
	b, _ := io.ReadAll(tr)
	id, perr := wire.OpID(b)
	if perr != nil {
		return gotOtherErr, "returned frame unparsable: " + perr.Error()
	}
	return int64(id), ""
}

// ---------------------------------------------------------------- peers

// peer abstracts how the adversarial side injects inbound frames.
type peer interface {
	transport() frugal.FTransport
	inject(opid uint64) // a response frame whose _opid header is opid
	inject503(opid uint64)
	junk(b []byte)
	close()
}

type adapterPeer struct {
	pipe     *faultio.Pipe
	tr       frugal.FTransport
	decoyFor func(opid uint64) uint64 // another in-flight op id to embed in a user header value
}

func newAdapterPeer() *adapterPeer {
	p := &adapterPeer{pipe: faultio.New()}
	p.tr = frugal.NewAdapterTransport(p.pipe)
	return p
}
func (p *adapterPeer) transport() frugal.FTransport { return p.tr }
func (p *adapterPeer) inject(opid uint64) {
	if p.decoyFor != nil {
		if d := p.decoyFor(opid); d != opid {
			p.pipe.Feed(wire.OpFrameDecoy(opid, d, []byte("payload")))
			return
		}
	}
	p.pipe.Feed(wire.OpFrame(opid, []byte("payload")))
}
func (p *adapterPeer) inject503(opid uint64) {}
func (p *adapterPeer) junk(b []byte)         { p.pipe.Feed(b) }
func (p *adapterPeer) close()                { p.tr.Close() }

type natsPeer struct {
	srv        *brokers.Nats
	cc, pc     *nats.Conn
	tr         frugal.FTransport
	inbox      string
	subject    string
	subjectFor func(opid uint64) uint64 // reply subject (op id suffix) a response frame is published on
}

var natsSrv *brokers.Nats
var natsSeq int

func newNatsPeer() (*natsPeer, error) {
	if natsSrv == nil {
		s, err := brokers.StartNats()
		if err != nil {
			return nil, err
		}
		natsSrv = s
	}
	cc, err := natsSrv.Conn()
	if err != nil {
		return nil, err
	}
	pc, err := natsSrv.Conn()
	if err != nil {
		return nil, err
	}
	natsSeq++
	p := &natsPeer{srv: natsSrv, cc: cc, pc: pc, inbox: fmt.Sprintf("_INBOX.verif%d", natsSeq), subject: fmt.Sprintf("svc%d", natsSeq)}
	// a silent responder, so the server never answers with its own 503
	if _, err := pc.Subscribe(p.subject, func(m *nats.Msg) {}); err != nil {
		return nil, err
	}
	pc.Flush()
	p.tr = frugal.NewFNatsTransport(cc, p.subject, p.inbox)
	return p, nil
}
func (p *natsPeer) transport() frugal.FTransport { return &flushOnOpen{p.tr, p.cc} }

// flushOnOpen makes the inbox subscription known to the server before the peer publishes.
type flushOnOpen struct {
	frugal.FTransport
	cc *nats.Conn
}

func (f *flushOnOpen) Open() error {
	err := f.FTransport.Open()
	f.cc.Flush()
	return err
}
func (p *natsPeer) inject(opid uint64) {
	// NATS routes by subject, frugal by the _opid header (ClientMux!Lookup is by the frame's op id): when the scenario
	// names another request that is in flight, the frame travels on THAT request's reply subject
	subj := opid
	if p.subjectFor != nil {
		subj = p.subjectFor(opid)
	}
	fr := wire.OpFrame(opid, []byte("payload"))
	if subj != opid {
		fr = wire.OpFrameDecoy(opid, subj, []byte("payload")) // ... and a user header value embeds that request's marshalled _opid pair
	}
	p.pc.Publish(fmt.Sprintf("%s.%d", p.inbox, subj), fr)
	p.pc.Flush()
}
func (p *natsPeer) inject503(opid uint64) {
	m := nats.NewMsg(fmt.Sprintf("%s.%d", p.inbox, opid))
	m.Header.Set("Status", "503")
	p.pc.PublishMsg(m)
	p.pc.Flush()
}
func (p *natsPeer) junk(b []byte) { p.pc.Publish(p.inbox+".junk", b); p.pc.Flush() }
func (p *natsPeer) close()        { p.tr.Close(); p.cc.Close(); p.pc.Close() }

// ---------------------------------------------------------------- replay

type caller struct {
	model   int
	ctx     frugal.FContext
	opid    uint64
	timeout time.Duration
	started time.Time
	sendCh  chan string
	sendRet chan struct{}
	done    chan struct{}
	got     int64
	errText string
	state   string // idle wait got done
}

const (
	shortTimeout = 25 * time.Millisecond
	longTimeout  = 4 * time.Second
	stepWait     = 2 * time.Second
)

var tracePolluted bool

func replay(variant string, idx int, beh []Step) {
	ctl := sched.New()
	ctl.Install()
	var p peer
	if variant == "adapter" {
		p = newAdapterPeer()
	} else {
		np, err := newNatsPeer()
		if err != nil {
			fmt.Fprintln(os.Stderr, "nats:", err)
			os.Exit(2)
		}
		p = np
	}
	tr := p.transport()
	if err := tr.Open(); err != nil {
		fmt.Fprintln(os.Stderr, "open:", err)
		os.Exit(2)
	}
	stallRelease := make(chan struct{})
	callers := map[int]*caller{}
	byOp := map[uint64]*caller{}
	var cmu sync.Mutex
	expires := map[int]bool{}
	for _, s := range beh {
		if s.A == "Expire" {
			expires[s.C] = true
		}
	}
	if ap, ok := p.(*adapterPeer); ok {
		ap.pipe.OnWrite = func(b []byte) error {
			id, err := wire.OpID(b[4:])
			if err != nil {
				return nil
			}
			cmu.Lock()
			c := byOp[id]
			cmu.Unlock()
			if c == nil {
				return nil
			}
			defer close(c.sendRet)
			switch <-c.sendCh {
			case "err":
				return faultio.ErrInjected
			case "stall":
				<-stallRelease
				return faultio.ErrInjected
			}
			return nil
		}
	}
	if ap, ok := p.(*adapterPeer); ok {
		// a user header value of the frame embeds the marshalled _opid pair of another caller that is in flight, if any
		ap.decoyFor = func(id uint64) uint64 {
			for m := 1; m <= 16; m++ {
				if c := callers[m]; c != nil && c.opid != id && c.state != "done" {
					return c.opid
				}
			}
			return id
		}
	}
	if np, ok := p.(*natsPeer); ok {
		// crossed reply subjects: a frame for op id X travels on the subject of another caller that is in flight, if any
		np.subjectFor = func(id uint64) uint64 {
			for m := 1; m <= 16; m++ {
				if c := callers[m]; c != nil && c.opid != id && c.state != "done" {
					return c.opid
				}
			}
			return id
		}
	}
	ctl.ArmAny("reg.send")
	unknownBase := uint64(1) << 40
	realOp := func(m int) uint64 {
		if c := callers[m]; c != nil {
			return c.opid
		}
		// a caller that has not registered yet, or an id never issued
		return unknownBase + uint64(m)
	}
	modelOp := func(id uint64) int {
		cmu.Lock()
		defer cmu.Unlock()
		if c := byOp[id]; c != nil {
			return c.model
		}
		return 99
	}
	diverged := false
	wedged := false
	abort := false
	executed := 0
	prefix := func(i int) []Step { return beh[:i+1] }
	readerBlocked := func() bool {
		return sched.StablyBlockedIn("chan send", "fRegistryImpl).dispatch", 150*time.Millisecond) ||
			sched.StablyBlockedIn("sync.RWMutex", "fRegistryImpl).dispatch", 150*time.Millisecond)
	}
	for i, s := range beh {
		if abort {
			break
		}
		executed++
		switch s.A {
		case "Register":
			c := &caller{model: s.C, ctx: frugal.NewFContext(""), sendCh: make(chan string, 1), sendRet: make(chan struct{}), done: make(chan struct{}), state: "wait"}
			c.timeout = longTimeout
			if expires[s.C] {
				c.timeout = shortTimeout
			}
			c.ctx.SetTimeout(c.timeout)
			c.opid = opidOf(c.ctx)
			cmu.Lock()
			callers[s.C] = c
			byOp[c.opid] = c
			cmu.Unlock()
			ctl.Arm("req.wait", c.opid)
			ctl.Arm("req.result", c.opid)
			ctl.Arm("req.err", c.opid)
			ctl.Arm("req.timeout", c.opid)
			c.started = time.Now()
			go func() {
				rt, err := tr.Request(c.ctx, wire.OpFrame(c.opid, []byte("req")))
				c.got, c.errText = classify(rt, err)
				ctl.Emit("ret", c.opid, int(c.got))
				close(c.done)
			}()
			if !ctl.WaitParked("req.wait", c.opid, stepWait) {
				res.Notes = append(res.Notes, fmt.Sprintf("behaviour %d: caller %d did not reach G0", idx, s.C))
				diverged, abort = true, true
				// neither at its select nor returned: whatever holds it, the call must still come back by its deadline
				select {
				case <-c.done:
				case <-time.After(time.Until(c.started.Add(c.timeout + time.Second))):
					violate("C13", "request-blocked-before-select", fmt.Sprintf("%s: Request of caller %d was still inside the transport, before its select, %v after it started (timeout %v)", variant, s.C, time.Since(c.started).Round(time.Millisecond), c.timeout), prefix(i))
					wedged = true
				}
				break
			}
			if n := frugal.VerifRegistrySize(unwrap(tr)); n != s.Reg && !diverged {
				violate("C01", "registry-size-after-register", fmt.Sprintf("%s: after Register(%d) the registry holds %d entries, the specification %d", variant, s.C, n, s.Reg), prefix(i))
			}
		case "Collide":
			// a second Request with the same FContext while the first is in flight: rejected, registry untouched
			c := callers[s.C]
			cdone := make(chan error, 1)
			go func() { _, err := tr.Request(c.ctx, wire.OpFrame(c.opid, []byte("again"))); cdone <- err }()
			select {
			case err := <-cdone:
				if err == nil {
					violate("C01", "collide-accepted", fmt.Sprintf("%s: a second Request with the FContext of in-flight caller %d was accepted", variant, s.C), prefix(i))
				}
			case <-time.After(stepWait):
				violate("C13", "collide-blocked", fmt.Sprintf("%s: a second Request with the FContext of in-flight caller %d did not return", variant, s.C), prefix(i))
				diverged, abort = true, true
			}
			if n := frugal.VerifRegistrySize(unwrap(tr)); n != s.Reg && !diverged {
				violate("C01,C06", "collide-removed-registration", fmt.Sprintf("%s: after a rejected second Request with caller %d's FContext the registry holds %d entries, the specification %d: the in-flight request can no longer receive its response", variant, s.C, n, s.Reg), prefix(i))
				diverged = true
			}
		case "SendOk", "SendFail", "SendStall":
			if variant != "adapter" {
				break // the NATS transport publishes inline: no send goroutine
			}
			c := callers[s.C]
			mode := map[string]string{"SendOk": "ok", "SendFail": "err", "SendStall": "stall"}[s.A]
			c.sendCh <- mode
			if mode != "stall" {
				select {
				case <-c.sendRet:
				case <-time.After(stepWait):
					diverged = true
				}
			}
		case "Expire":
			c := callers[s.C]
			if variant == "adapter" {
				// the deadline started inside Request (ToContext), shortly after c.started
				if d := time.Until(c.started.Add(c.timeout + 8*time.Millisecond)); d > 0 {
					time.Sleep(d)
				}
			}
		case "Recv", "RecvErr", "Timeout":
			c := callers[s.C]
			from := ctl.Len()
			ctl.Release("req.wait", c.opid)
			wait := stepWait
			if s.A == "Timeout" {
				wait += c.timeout
			}
			e, ok := ctl.WaitEvent(from, wait, func(e sched.Event) bool {
				return e.ID == c.opid && (e.Point == "req.result" || e.Point == "req.err" || e.Point == "req.timeout")
			})
			if !ok {
				res.Notes = append(res.Notes, fmt.Sprintf("behaviour %d step %d: caller %d did not leave its select for %s", idx, i, s.C, s.A))
				violate("C13", "caller-stuck-in-select", fmt.Sprintf("%s: caller %d did not leave Request's select although %s was enabled in the specification", variant, s.C, s.A), prefix(i))
				diverged, abort = true, true
				break
			}
			want := map[string]string{"Recv": "req.result", "RecvErr": "req.err", "Timeout": "req.timeout"}[s.A]
			if e.Point != want {
				diverged = true // Go's select chose another ready case: follow reality
			}
			c.state = "got"
		case "Unregister":
			c := callers[s.C]
			ctl.Release("req.result", c.opid)
			ctl.Release("req.err", c.opid)
			ctl.Release("req.timeout", c.opid)
			select {
			case <-c.done:
			case <-time.After(stepWait):
				if sched.StablyBlockedIn("sync.RWMutex", "Unregister", 150*time.Millisecond) || sched.StablyBlockedIn("semacquire", "Unregister", 150*time.Millisecond) {
					violate("C06", "unregister-blocked", fmt.Sprintf("%s: Unregister of caller %d is blocked on the registry lock", variant, s.C), prefix(i))
				}
				diverged, abort = true, true
			}
			c.state = "done"
			if n := frugal.VerifRegistrySize(unwrap(tr)); !abort && n != s.Reg && !diverged {
				violate("C01", "registry-size-after-unregister", fmt.Sprintf("%s: after Unregister(%d) the registry holds %d entries, the specification %d", variant, s.C, n, s.Reg), prefix(i))
			}
		case "LookupHit", "LookupMiss", "S503Hit", "S503Miss":
			id := realOp(s.C)
			from := ctl.Len()
			if s.A[0] == 'S' {
				p.inject503(id)
			} else {
				p.inject(id)
			}
			e, ok := ctl.WaitEvent(from, stepWait, func(e sched.Event) bool {
				return e.ID == id && (e.Point == "reg.hit" || e.Point == "reg.miss")
			})
			if !ok {
				if readerBlocked() {
					wedged = true
					violate("C06", "reader-blocked", fmt.Sprintf("%s: an inbound frame for op %d was never looked up: the reader is parked inside dispatch (head-of-line blocking)", variant, s.C), prefix(i))
				} else {
					res.Notes = append(res.Notes, fmt.Sprintf("behaviour %d step %d: frame not consumed, reader not seen blocked", idx, i))
				}
				diverged, abort = true, true
				break
			}
			hit := e.Point == "reg.hit"
			wantHit := s.A == "LookupHit" || s.A == "S503Hit"
			if hit != wantHit && !diverged {
				violate("C01", "lookup-mismatch", fmt.Sprintf("%s: frame for op %d: registry lookup hit=%v, specification hit=%v", variant, s.C, hit, wantHit), prefix(i))
				diverged = true
			}
			if hit {
				if !ctl.WaitParked("reg.send", id, stepWait) {
					diverged = true
				}
			}
		case "DeliverPut", "DeliverDrop":
			id := realOp(s.C)
			from := ctl.Len()
			ctl.Release("reg.send", id) // the reader parked under the wildcard gate: release that one
			ctl.ReleaseAny("reg.send")
			_, ok := ctl.WaitEvent(from, 400*time.Millisecond, func(e sched.Event) bool {
				return e.ID == id && e.Point == "reg.sent"
			})
			ctl.ArmAny("reg.send")
			if !ok {
				if readerBlocked() {
					wedged = true
					violate("C06", "reader-blocked", fmt.Sprintf("%s: the reader is parked in the channel send of dispatch for op %d (specification: %s); it cannot consume further frames until that caller acts", variant, s.C, s.A), prefix(i))
					diverged, abort = true, true
				} else {
					diverged = true
				}
			}
		}
	}
	// ---- C06 probe: after the prefix, a fresh request must be served promptly ----
	if !abort || wedged {
		ctl.ReleaseAll()
		fc := frugal.NewFContext("")
		fc.SetTimeout(1500 * time.Millisecond)
		fid := opidOf(fc)
		cmu.Lock()
		byOp[fid] = &caller{model: 16, opid: fid}
		cmu.Unlock()
		fdone := make(chan struct{})
		var fgot int64
		var ferr string
		t0 := time.Now()
		if ap, ok := p.(*adapterPeer); ok {
			old := ap.pipe.OnWrite
			ap.pipe.OnWrite = func(b []byte) error {
				if id, err := wire.OpID(b[4:]); err == nil && id == fid {
					return nil
				}
				return old(b)
			}
		}
		go func() {
			rt, err := tr.Request(fc, wire.OpFrame(fid, []byte("fresh")))
			fgot, ferr = classify(rt, err)
			ctl.Emit("ret", fid, int(fgot))
			close(fdone)
		}()
		ctl.WaitEvent(0, stepWait, func(e sched.Event) bool { return e.Point == "req.wait" && e.ID == fid })
		p.inject(fid)
		freshBack := true
		select {
		case <-fdone:
		case <-time.After(1500*time.Millisecond + 3*time.Second):
			freshBack = false
		}
		el := time.Since(t0)
		if !freshBack {
			violate("C13", "fresh-request-never-returned", fmt.Sprintf("%s: after the prefix a fresh Request with a 1.5 s timeout had not returned after %v", variant, el), beh[:executed])
			wedged = true
		} else if fgot != int64(fid) {
			violate("C06", "fresh-request-not-served", fmt.Sprintf("%s: after the inbound prefix a fresh request got %d (%s) after %v instead of its own response", variant, fgot, ferr, el), beh[:executed])
		} else if el > time.Second {
			violate("C06", "fresh-request-slow", fmt.Sprintf("%s: fresh request served after %v", variant, el), beh[:executed])
		}
	}
	// ---- cleanup: let everything finish ----
	ctl.ReleaseAll()
	close(stallRelease)
	for _, c := range callers {
		select {
		case c.sendCh <- "ok":
		default:
		}
	}
	for _, c := range callers {
		if c.state != "done" {
			p.inject(c.opid)
		}
	}
	for _, c := range callers {
		select {
		case <-c.done:
		case <-time.After(longTimeout + 2*time.Second):
			violate("C13", "request-never-returned", fmt.Sprintf("%s: Request of caller %d did not return %v after its %v timeout", variant, c.model, longTimeout+2*time.Second, c.timeout), beh[:executed])
			wedged = true
		}
	}
	for _, c := range callers {
		select {
		case <-c.done:
			if c.got > 0 && uint64(c.got) != c.opid {
				violate("C01", "miscorrelated", fmt.Sprintf("%s: caller %d (op id %d) completed with the frame of op id %d", variant, c.model, c.opid, c.got), beh[:executed])
			}
			if c.got == gotOtherErr {
				violate("C01", "unexpected-error", fmt.Sprintf("%s: caller %d: %s", variant, c.model, c.errText), beh[:executed])
			}
		default:
		}
	}
	size := frugal.VerifRegistrySize(unwrap(tr))
	if size != 0 && !wedged {
		violate("C01", "registry-leak", fmt.Sprintf("%s: %d registrations left after every caller returned", variant, size), beh[:executed])
	}
	// ---- trace for TLC (only complete, un-wedged runs; a wedged run is already a violation, and the goroutines it leaves
	// behind go on reporting to the hooks of later runs, so no trace is recorded after the first wedge) ----
	if wedged {
		tracePolluted = true
	}
	if !wedged && !tracePolluted {
		for _, e := range ctl.Events() {
			switch e.Point {
			case "reg.add", "reg.del":
				emitTrace(e.Point, modelOp(e.ID), e.N)
			case "reg.miss", "reg.hit", "req.result", "req.err", "req.timeout":
				emitTrace(e.Point, modelOp(e.ID), 0)
			case "ret":
				n := e.N
				if n > 0 {
					n = modelOp(uint64(n))
				}
				emitTrace("ret", modelOp(e.ID), n)
			}
		}
		emitTrace("reset", 0, size)
	}
	p.close()
	res.Runs++
	res.Steps += executed
	if diverged {
		res.Diverged++
	} else {
		res.Steered++
	}
}

// ---------------------------------------------------------------- random sessions

// session runs n concurrent callers against an adversarial feeder without gates;
// hooks get small random delays so that interleavings vary.
func session(variant string, rng *rand.Rand, n int) {
	ctl := sched.New()
	var dmu sync.Mutex
	drng := rand.New(rand.NewSource(rng.Int63()))
	ctl.Install()
	jitter := func() {
		dmu.Lock()
		k := drng.Intn(10)
		dmu.Unlock()
		if k == 0 {
			time.Sleep(time.Duration(50+k*20) * time.Microsecond)
		} else if k < 4 {
			// yield
			time.Sleep(0)
		}
	}
	prev := frugal.VerifHook
	frugal.VerifHook = func(point string, obj interface{}, id uint64, nn int) {
		prev(point, obj, id, nn)
		switch point {
		case "reg.send", "req.wait", "req.result", "req.err", "req.timeout":
			jitter() // never while a lock is held
		}
	}
	var p peer
	if variant == "adapter" {
		p = newAdapterPeer()
	} else {
		np, err := newNatsPeer()
		if err != nil {
			fmt.Fprintln(os.Stderr, "nats:", err)
			os.Exit(2)
		}
		p = np
	}
	tr := p.transport()
	if err := tr.Open(); err != nil {
		os.Exit(2)
	}
	type rc struct {
		c    *caller
		plan string // answer | late | never | dup | senderr
	}
	plans := []string{"answer", "answer", "dup", "dup3", "late", "never", "early"}
	if variant == "adapter" {
		plans = append(plans, "senderr")
	} else {
		plans = append(plans, "s503")
	}
	var cs []*rc
	byOp := map[uint64]*caller{}
	failOps := map[uint64]bool{}
	var fmu sync.Mutex
	for i := 0; i < n; i++ {
		c := &caller{model: i + 1, ctx: frugal.NewFContext(""), done: make(chan struct{})}
		c.opid = opidOf(c.ctx)
		pl := plans[rng.Intn(len(plans))]
		c.timeout = 400 * time.Millisecond
		if pl == "late" || pl == "never" {
			c.timeout = time.Duration(15+rng.Intn(30)) * time.Millisecond
		}
		c.ctx.SetTimeout(c.timeout)
		byOp[c.opid] = c
		if pl == "senderr" {
			failOps[c.opid] = true
		}
		cs = append(cs, &rc{c, pl})
	}
	if ap, ok := p.(*adapterPeer); ok {
		ap.pipe.OnWrite = func(b []byte) error {
			id, err := wire.OpID(b[4:])
			fmu.Lock()
			f := err == nil && failOps[id]
			fmu.Unlock()
			if f {
				return faultio.ErrInjected
			}
			return nil
		}
	}
	if np, ok := p.(*natsPeer); ok && len(cs) > 1 {
		// every other response travels on the reply subject of the next caller (the feeder is one goroutine)
		k := 0
		np.subjectFor = func(id uint64) uint64 {
			k++
			if k%2 == 0 {
				return id
			}
			for i, r := range cs {
				if r.c.opid == id {
					return cs[(i+1)%len(cs)].c.opid
				}
			}
			return cs[k%len(cs)].c.opid
		}
	}
	var wg sync.WaitGroup
	unknown := uint64(1)<<41 + uint64(rng.Intn(1000))
	for _, r := range cs {
		r := r
		wg.Add(1)
		delay := time.Duration(rng.Intn(3000)) * time.Microsecond
		go func() {
			defer wg.Done()
			time.Sleep(delay)
			rt, err := tr.Request(r.c.ctx, wire.OpFrame(r.c.opid, []byte("req")))
			r.c.got, r.c.errText = classify(rt, err)
			ctl.Emit("ret", r.c.opid, int(r.c.got))
		}()
	}
	// feeder: one goroutine (a peer is a single ordered stream), random order
	order := rng.Perm(len(cs))
	wg.Add(1)
	go func() {
		defer wg.Done()
		time.Sleep(time.Duration(500+rng.Intn(2500)) * time.Microsecond)
		var late []*rc
		for _, i := range order {
			r := cs[i]
			if rng.Intn(4) == 0 {
				p.inject(unknown + uint64(rng.Intn(3)))
			}
			switch r.plan {
			case "answer", "early":
				if r.plan == "answer" {
					ctl.WaitEvent(0, 50*time.Millisecond, func(e sched.Event) bool { return e.Point == "reg.add" && e.ID == r.c.opid })
				}
				p.inject(r.c.opid)
			case "dup":
				p.inject(r.c.opid)
				p.inject(r.c.opid)
			case "dup3":
				p.inject(r.c.opid)
				p.inject(r.c.opid)
				p.inject(r.c.opid)
			case "s503":
				ctl.WaitEvent(0, 50*time.Millisecond, func(e sched.Event) bool { return e.Point == "reg.add" && e.ID == r.c.opid })
				p.inject503(r.c.opid)
			case "late":
				late = append(late, r)
			}
			if rng.Intn(3) == 0 {
				time.Sleep(time.Duration(rng.Intn(400)) * time.Microsecond)
			}
		}
		if len(late) > 0 {
			time.Sleep(60 * time.Millisecond)
			for _, r := range late {
				p.inject(r.c.opid)
				p.inject(r.c.opid)
			}
		}
	}()
	fin := make(chan struct{})
	go func() { wg.Wait(); close(fin) }()
	wedged := false
	select {
	case <-fin:
	case <-time.After(8 * time.Second):
		wedged = true
		blocked := sched.BlockedIn("chan send", "fRegistryImpl).dispatch")
		violate("C06", "session-wedged", fmt.Sprintf("%s: randomized session with %d callers did not finish within 8 s (reader blocked in dispatch: %v)", variant, n, blocked), sessionDesc)
	}
	if !wedged {
		desc := sessionDesc
		for _, r := range cs {
			c := r.c
			if c.got > 0 && uint64(c.got) != c.opid {
				violate("C01", "miscorrelated", fmt.Sprintf("%s: caller with op id %d completed with the frame of op id %d", variant, c.opid, c.got), desc)
			}
			switch r.plan {
			case "answer", "dup", "dup3":
				// An answered request must not be affected by anything else in the session
				// (early answers may legitimately precede registration and be discarded).
				if r.plan == "answer" && c.got != int64(c.opid) {
					violate("C01", "bystander-outcome-changed", fmt.Sprintf("%s: request (plan %s, timeout %v) answered in time ended with %d (%s)", variant, r.plan, c.timeout, c.got, c.errText), desc)
				}
			case "never":
				if c.got != gotTimeout {
					violate("C13", "silent-peer-not-timeout", fmt.Sprintf("%s: unanswered request ended with %d (%s)", variant, c.got, c.errText), desc)
				}
			}
		}
		size := frugal.VerifRegistrySize(unwrap(tr))
		if size != 0 {
			violate("C01", "registry-leak", fmt.Sprintf("%s: %d registrations left after a randomized session", variant, size), desc)
		}
		model := func(id uint64) int {
			if c := byOp[id]; c != nil {
				return c.model
			}
			return 99
		}
		for _, e := range ctl.Events() {
			switch e.Point {
			case "reg.add", "reg.del":
				emitTrace(e.Point, model(e.ID), e.N)
			case "reg.miss", "reg.hit", "req.result", "req.err", "req.timeout":
				emitTrace(e.Point, model(e.ID), 0)
			case "ret":
				nn := e.N
				if nn > 0 {
					nn = model(uint64(nn))
				}
				emitTrace("ret", model(e.ID), nn)
			}
		}
		emitTrace("reset", 0, size)
		if len(res.Samples) < 3 {
			b, _ := json.Marshal(desc)
			res.Samples = append(res.Samples, string(b))
		}
	}
	p.close()
	res.Runs++
	res.Steered++
}

var sessionDesc interface{}

// ---------------------------------------------------------------- timing matrix (C13)

type TimingRow struct {
	Transport string  `json:"transport"`
	Call      string  `json:"call"`
	Peer      string  `json:"peer"`
	TimeoutMs int     `json:"timeout_ms"`
	ElapsedMs float64 `json:"elapsed_ms"`
	Outcome   string  `json:"outcome"`
	Registry  int     `json:"registry"`
}

const allowance = 250 * time.Millisecond

func outcomeName(got int64) string {
	switch {
	case got > 0:
		return "response"
	case got == gotTimeout:
		return "TIMED_OUT"
	case got == gotSendErr:
		return "send-error"
	case got == gotUnavailable:
		return "SERVICE_NOT_AVAILABLE"
	}
	return "other-error"
}

func timingCase(transport, call, peerKind string, to time.Duration) {
	row := TimingRow{Transport: transport, Call: call, Peer: peerKind, TimeoutMs: int(to / time.Millisecond)}
	fc := frugal.NewFContext("")
	fc.SetTimeout(to)
	id := opidOf(fc)
	payload := wire.OpFrame(id, []byte("req"))
	release := make(chan struct{})
	var tr frugal.FTransport
	var cleanup func()
	respond := func() {}
	switch transport {
	case "adapter":
		ap := newAdapterPeer()
		tr = ap.tr
		switch peerKind {
		case "blocked-write":
			ap.pipe.OnWrite = func(b []byte) error { <-release; return nil }
		case "blocked-flush":
			ap.pipe.OnFlush = func(ctx context.Context) error { <-release; return nil }
		}
		respond = func() { ap.inject(id) }
		cleanup = func() { ap.close() }
		tr.Open()
		switch peerKind {
		case "close-in-progress":
			// another goroutine is inside Close(): the underlying close lingers
			entered := make(chan struct{})
			ap.pipe.OnClose = func() error { close(entered); <-release; return nil }
			go tr.Close()
			<-entered
			cleanup = func() {}
		case "reopen-in-progress":
			// the transport was closed and another goroutine is inside Open(): the connect stalls
			tr.Close()
			entered := make(chan struct{})
			ap.pipe.OnOpen = func() error { close(entered); <-release; return nil }
			go tr.Open()
			<-entered
			cleanup = func() { time.Sleep(time.Millisecond); ap.close() }
		}
	case "nats":
		np, err := newNatsPeer()
		if err != nil {
			os.Exit(2)
		}
		tr = np.transport()
		respond = func() { np.inject(id) }
		cleanup = func() { np.close() }
		tr.Open()
	case "http":
		var delay time.Duration
		switch peerKind {
		case "silent":
			delay = to + 3*time.Second
		case "late":
			delay = to + to/2 + 20*time.Millisecond
		case "early":
			delay = to / 4
		}
		ts := httptest.NewServer(http.HandlerFunc(func(w http.ResponseWriter, r *http.Request) {
			if peerKind == "stall-mid-body" {
				// status line, headers and the first bytes of the body arrive in time, the rest never does
				w.Header().Set("Content-Type", "application/x-frugal")
				w.Header().Set("Content-Length", "64")
				w.Write([]byte("AAAA"))
				if f, ok := w.(http.Flusher); ok {
					f.Flush()
				}
				select {
				case <-release:
				case <-time.After(to + 6*time.Second):
				}
				return
			}
			select {
			case <-time.After(delay):
			case <-release:
			}
			// an empty but well-formed frugal HTTP response is enough for the transport layer
			w.Header().Set("Content-Type", "application/x-frugal")
			w.Write([]byte("AAAAAA=="))
		}))
		tr = frugal.NewFHTTPTransportBuilder(&http.Client{}, ts.URL).Build()
		tr.Open()
		cleanup = func() { ts.Close() }
	}
	if transport != "http" {
		switch peerKind {
		case "late":
			go func() { time.Sleep(to + to/2 + 20*time.Millisecond); respond() }()
		case "early":
			go func() { time.Sleep(to / 4); respond() }()
		}
	}
	t0 := time.Now()
	var got int64
	var errText string
	doneC := make(chan struct{})
	go func() {
		if call == "oneway" {
			err := tr.Oneway(fc, payload)
			if err == nil {
				got = int64(id)
			} else {
				got, errText = classify(nil, err)
			}
		} else {
			rt, err := tr.Request(fc, payload)
			if transport == "http" {
				if err == nil {
					got = int64(id)
				} else {
					got, errText = classify(nil, err)
				}
			} else {
				got, errText = classify(rt, err)
			}
		}
		close(doneC)
	}()
	replayObj := map[string]interface{}{"transport": transport, "call": call, "peer": peerKind, "timeout_ms": row.TimeoutMs}
	select {
	case <-doneC:
		el := time.Since(t0)
		row.ElapsedMs = float64(el) / 1e6
		row.Outcome = outcomeName(got)
		if el > to+allowance {
			violate("C13", "late-return/"+transport+"/"+call+"/"+peerKind, fmt.Sprintf("%s %s with a %v timeout against a %s peer returned after %v (allowance %v)", transport, call, to, peerKind, el, allowance), replayObj)
		}
		expectTimeout := peerKind == "silent" || peerKind == "late" || peerKind == "stall-mid-body" || ((peerKind == "blocked-write" || peerKind == "blocked-flush") && transport == "adapter")
		if peerKind == "close-in-progress" || peerKind == "reopen-in-progress" {
			expectTimeout = false // TIMED_OUT or NOT_OPEN are both fine: only the deadline matters
		}
		if call == "oneway" {
			// write-and-forget: only a stalled write / flush can make it wait
			expectTimeout = transport == "adapter" && (peerKind == "blocked-write" || peerKind == "blocked-flush")
			if transport == "http" {
				expectTimeout = peerKind == "silent" || peerKind == "late" || peerKind == "stall-mid-body"
			}
		}
		if expectTimeout && got != gotTimeout {
			violate("C13", "not-timed-out/"+transport+"/"+call+"/"+peerKind, fmt.Sprintf("%s %s, %v timeout, %s peer: expected TIMED_OUT, got %s (%s)", transport, call, to, peerKind, row.Outcome, errText), replayObj)
		}
		if peerKind == "early" && got != int64(id) {
			violate("C13", "early-response-lost/"+transport+"/"+call, fmt.Sprintf("%s %s, %v timeout, response after %v: got %s (%s)", transport, call, to, to/4, row.Outcome, errText), replayObj)
		}
	case <-time.After(to + 5*time.Second):
		row.ElapsedMs = -1
		row.Outcome = "never-returned"
		violate("C13", "never-returned/"+transport+"/"+call+"/"+peerKind, fmt.Sprintf("%s %s with a %v timeout against a %s peer had not returned after %v", transport, call, to, peerKind, to+5*time.Second), replayObj)
	}
	close(release)
	if transport != "http" {
		time.Sleep(2 * time.Millisecond)
		row.Registry = frugal.VerifRegistrySize(unwrap(tr))
		if row.Outcome != "never-returned" && row.Registry != 0 {
			violate("C13", "registration-left/"+transport+"/"+call+"/"+peerKind, fmt.Sprintf("%s %s: %d registrations left behind", transport, call, row.Registry), replayObj)
		}
	}
	cleanup()
	res.Timing = append(res.Timing, row)
	res.Runs++
}

func main() {
	mode := flag.String("mode", "replay", "replay | random | timing")
	variant := flag.String("variant", "adapter", "adapter | nats")
	in := flag.String("in", "", "behaviours file: one JSON array of steps per line")
	out := flag.String("out", "results.json", "")
	trace := flag.String("trace", "mux_trace.ndjson", "")
	n := flag.Int("n", 50, "sessions (random mode)")
	maxCallers := flag.Int("callers", 16, "")
	seed := flag.Int64("seed", 1, "")
	timeouts := flag.String("timeouts", "20,50,100,250", "")
	flag.Parse()
	logrus.SetOutput(io.Discard)
	tf, err := os.Create(*trace)
	if err != nil {
		fmt.Fprintln(os.Stderr, err)
		os.Exit(2)
	}
	traceOut = bufio.NewWriter(tf)
	res.Mode, res.Variant = *mode, *variant
	rng := rand.New(rand.NewSource(*seed))
	switch *mode {
	case "replay":
		f, err := os.Open(*in)
		if err != nil {
			fmt.Fprintln(os.Stderr, err)
			os.Exit(2)
		}
		sc := bufio.NewScanner(f)
		sc.Buffer(make([]byte, 1<<20), 1<<26)
		i := 0
		for sc.Scan() {
			var beh []Step
			if err := json.Unmarshal(sc.Bytes(), &beh); err != nil {
				fmt.Fprintln(os.Stderr, "bad behaviour:", err)
				os.Exit(2)
			}
			if len(res.Samples) < 3 {
				res.Samples = append(res.Samples, sc.Text())
			}
			replay(*variant, i, beh)
			i++
		}
	case "random":
		for i := 0; i < *n; i++ {
			k := 1 + rng.Intn(*maxCallers)
			sessionDesc = map[string]interface{}{"mode": "random", "variant": *variant, "seed": *seed, "session": i, "callers": k}
			session(*variant, rng, k)
		}
	case "timing":
		var tos []time.Duration
		for _, s := range splitComma(*timeouts) {
			v, _ := strconv.Atoi(s)
			tos = append(tos, time.Duration(v)*time.Millisecond)
		}
		for _, to := range tos {
			for _, call := range []string{"request", "oneway"} {
				for _, pk := range []string{"silent", "late", "early", "blocked-write", "blocked-flush", "close-in-progress", "reopen-in-progress"} {
					timingCase("adapter", call, pk, to)
				}
				for _, pk := range []string{"silent", "late", "early"} {
					timingCase("nats", call, pk, to)
					timingCase("http", call, pk, to)
				}
				timingCase("http", call, "stall-mid-body", to)
			}
		}
	}
	traceOut.Flush()
	tf.Close()
	res.TraceEvents = traceN
	b, _ := json.MarshalIndent(res, "", " ")
	if err := os.WriteFile(*out, b, 0o644); err != nil {
		fmt.Fprintln(os.Stderr, err)
		os.Exit(2)
	}
}

func unwrap(t frugal.FTransport) frugal.FTransport {
	if f, ok := t.(*flushOnOpen); ok {
		return f.FTransport
	}
	return t
}

func splitComma(s string) []string {
	var out []string
	cur := ""
	for _, r := range s {
		if r == ',' {
			out = append(out, cur)
			cur = ""
		} else {
			cur += string(r)
		}
	}
	if cur != "" {
		out = append(out, cur)
	}
	return out
}
