# Python 2: runs contrib/frame_parser.py's parse_v0_protocol on records from stdin.
import sys, json, imp, os, array
repo = sys.argv[1]
fp = imp.load_source("frame_parser", os.path.join(repo, "contrib/frame_parser.py"))
for line in sys.stdin:
    line = line.strip()
    if not line:
        continue
    r = json.loads(line)
    out = {"id": r["id"], "err": ""}
    try:
        data = array.array('B', r["bytes"][1:] + r["payload"]).tostring()
        headers, payload = fp.parse_v0_protocol(data)
        out["read"] = sorted([[list(bytearray(k)), list(bytearray(v))] for k, v in headers.items()])
        out["rest"] = list(bytearray(payload))
    except SystemExit as e:
        out["err"] = "exit"
    except Exception as e:
        out["err"] = "%s: %s" % (type(e).__name__, e)
    sys.stdout.write(json.dumps(out) + "\n")
