"""Runs the Python runtime's header codec (lib/python/frugal/util/headers.py) on records from stdin.
The thrift package is not installed: a stub provides the one exception class the module imports.
stdin: one JSON object per line {"id":..,"bytes":[..],"payload":[..],"pairs":[[name,value],..] (utf-8 strings)}
stdout: one JSON object per line {"id":..,"read":[[n,v]..]|null,"read_frame":..,"rest":[..],"written":[..],"err":".."}"""
import sys, json, io, types, importlib.util, os, logging
repo = sys.argv[1]
logging.disable(logging.CRITICAL)
thrift = types.ModuleType("thrift"); proto = types.ModuleType("thrift.protocol"); tp = types.ModuleType("thrift.protocol.TProtocol")
class TProtocolException(Exception):
    UNKNOWN = 0; INVALID_DATA = 1; NEGATIVE_SIZE = 2; SIZE_LIMIT = 3; BAD_VERSION = 4
    def __init__(self, type=0, message=None):
        Exception.__init__(self, message); self.type = type
tp.TProtocolException = TProtocolException
sys.modules["thrift"] = thrift; sys.modules["thrift.protocol"] = proto; sys.modules["thrift.protocol.TProtocol"] = tp
spec = importlib.util.spec_from_file_location("frugal_headers", os.path.join(repo, "lib/python/frugal/util/headers.py"))
mod = importlib.util.module_from_spec(spec); spec.loader.exec_module(mod)
H = mod._Headers
for line in sys.stdin:
    line = line.strip()
    if not line:
        continue
    r = json.loads(line)
    out = {"id": r["id"], "err": ""}
    try:
        data = bytes(r["bytes"]) + bytes(r["payload"])
        bio = io.BytesIO(data)
        h = H._read(bio)
        out["read"] = sorted([[k, v] for k, v in h.items()])
        out["rest"] = list(bio.read())
        h2 = H.decode_from_frame(data)
        out["read_frame"] = sorted([[k, v] for k, v in h2.items()])
        if r.get("pairs") is not None:
            out["written"] = list(H._write_to_bytearray(dict((k, v) for k, v in r["pairs"])))
    except Exception as e:  # reported, never fatal: the Go side decides
        out["err"] = "%s: %s" % (type(e).__name__, e)
    sys.stdout.write(json.dumps(out) + "\n")
