// Command sizelimit is the conformance driver of the SizeLimit specification
// (C12).  Mode "buffer": TLC-enumerated sequences of primitive writes against
// the real TMemoryOutputBuffer.  Mode "e2e": payload shapes sized exactly
// around each limit through the generated client / server over the capture
// transport, HTTP (request limit, client-requested response limit) and NATS
// (1 MiB request, publish and server-reply limits).
package main

import (
	"bytes"
	"encoding/base64"
	"encoding/json"
	"errors"
	"flag"
	"fmt"
	"io"
	"net/http"
	"os"
	"strings"
	"sync"
	"time"

	frugal "github.com/Workiva/frugal/lib/go"
	"github.com/apache/thrift/lib/go/thrift"
	"github.com/nats-io/nats.go"
	"github.com/sirupsen/logrus"

	"verifharness/gen/verifbase"
	"verifharness/gen/verifrpc"
	"verifharness/internal/rig"
)

type W struct {
	K string `json:"k"`
	N int    `json:"n"`
}

type BufCase struct {
	Writes []W    `json:"writes"`
	Limit  int    `json:"limit"`
	Status string `json:"status"`
	Held   int    `json:"held"`
	Total  int    `json:"total"`
}

type Violation struct {
	Key    string      `json:"key"`
	Text   string      `json:"text"`
	Replay interface{} `json:"replay"`
}

type Results struct {
	Runs       int           `json:"runs"`
	Violations []Violation   `json:"violations"`
	Notes      []string      `json:"notes"`
	Samples    []interface{} `json:"samples"`
	Records    []interface{} `json:"records"`
}

var res Results

func violate(key, text string, replay interface{}) {
	if len(res.Violations) < 40 {
		res.Violations = append(res.Violations, Violation{key, text, replay})
	}
}

func tooLargeType(err error) string {
	var te thrift.TTransportException
	if errors.As(err, &te) {
		switch te.TypeId() {
		case frugal.TRANSPORT_EXCEPTION_REQUEST_TOO_LARGE:
			return "REQUEST_TOO_LARGE"
		case frugal.TRANSPORT_EXCEPTION_RESPONSE_TOO_LARGE:
			return "RESPONSE_TOO_LARGE"
		case frugal.TRANSPORT_EXCEPTION_TIMED_OUT:
			return "TIMED_OUT"
		}
		return fmt.Sprintf("transport-exception-%d", te.TypeId())
	}
	if err == nil {
		return "ok"
	}
	return "error:" + err.Error()
}

// ---------------------------------------------------------------- buffer level

func bufferMode(in string) {
	raw, err := os.ReadFile(in)
	if err != nil {
		fmt.Fprintln(os.Stderr, err)
		os.Exit(2)
	}
	var cases []BufCase
	if err := json.Unmarshal(raw, &cases); err != nil {
		fmt.Fprintln(os.Stderr, err)
		os.Exit(2)
	}
	for _, c := range cases {
		b := frugal.NewTMemoryOutputBuffer(uint(c.Limit))
		status := "ok"
		var werr error
	loop:
		for _, w := range c.Writes {
			switch w.K {
			case "W":
				_, werr = b.Write(bytes.Repeat([]byte{'w'}, w.N))
			case "S":
				_, werr = b.WriteString(strings.Repeat("s", w.N))
			case "B":
				for i := 0; i < w.N && werr == nil; i++ {
					werr = b.WriteByte('b')
				}
			}
			if werr != nil {
				status = "toolarge"
				break loop
			}
		}
		held := b.Len()
		ok := status == c.Status && held == c.Held
		if status == "toolarge" && tooLargeType(werr) != "REQUEST_TOO_LARGE" {
			ok = false
		}
		// the buffer stays usable: a small message fits afterwards (if the limit allows one at all)
		reuse := true
		if status == "toolarge" && c.Limit >= 5 {
			if _, err := b.Write([]byte{1}); err != nil || b.Len() != 5 {
				reuse = false
			}
		}
		if !ok || !reuse {
			key := "buffer/" + c.Status + "-expected"
			for _, w := range c.Writes {
				key += "/" + w.K
			}
			violate(key, fmt.Sprintf("TMemoryOutputBuffer(limit %d) after writes %+v: status %s, %d bytes held, error %v, reusable %v; the specification says status %s, %d bytes held (message total %d)", c.Limit, c.Writes, status, held, werr, reuse, c.Status, c.Held, c.Total), c)
		}
		res.Runs++
		if len(res.Samples) < 3 && len(c.Writes) == 3 {
			res.Samples = append(res.Samples, c)
		}
	}
}

// ---------------------------------------------------------------- end to end

// captureTransport is an FTransport that records what the client hands over and answers nothing.
type captureTransport struct {
	limit uint
	mu    sync.Mutex
	sent  [][]byte
}

func (c *captureTransport) Open() error                         { return nil }
func (c *captureTransport) IsOpen() bool                        { return true }
func (c *captureTransport) Close() error                        { return nil }
func (c *captureTransport) Closed() <-chan error                { return nil }
func (c *captureTransport) SetMonitor(frugal.FTransportMonitor) {}
func (c *captureTransport) GetRequestSizeLimit() uint           { return c.limit }
func (c *captureTransport) Oneway(ctx frugal.FContext, p []byte) error {
	c.mu.Lock()
	c.sent = append(c.sent, append([]byte(nil), p...))
	c.mu.Unlock()
	return nil
}
func (c *captureTransport) Request(ctx frugal.FContext, p []byte) (thrift.TTransport, error) {
	c.Oneway(ctx, p)
	return nil, thrift.NewTTransportException(frugal.TRANSPORT_EXCEPTION_TIMED_OUT, "capture transport never answers")
}
func (c *captureTransport) take() [][]byte {
	c.mu.Lock()
	defer c.mu.Unlock()
	s := c.sent
	c.sent = nil
	return s
}

type capturePublisher struct {
	limit uint
	mu    sync.Mutex
	sent  [][]byte
}

func (c *capturePublisher) Open() error               { return nil }
func (c *capturePublisher) Close() error              { return nil }
func (c *capturePublisher) IsOpen() bool              { return true }
func (c *capturePublisher) GetPublishSizeLimit() uint { return c.limit }
func (c *capturePublisher) Publish(topic string, p []byte) error {
	c.mu.Lock()
	c.sent = append(c.sent, append([]byte(nil), p...))
	c.mu.Unlock()
	return nil
}

type capturePubFactory struct{ p *capturePublisher }

func (f *capturePubFactory) GetTransport() frugal.FPublisherTransport { return f.p }

// fixedCtx gives every call the same header sizes (op id of fixed width, fixed cid), so that sizes are reproducible.
func fixedCtx() frugal.FContext {
	c := frugal.NewFContext("cid-fixed-0123456789")
	c.SetTimeout(3 * time.Second)
	return c
}

// shape builds the call for a payload shape with a pad of n bytes in its large part.
type shape struct {
	name string
	call func(cl *verifrpc.FStoreClient, ctx frugal.FContext, n int) error
}

var shapes = []shape{
	{"large-request-header(first)", func(cl *verifrpc.FStoreClient, ctx frugal.FContext, n int) error {
		ctx.AddRequestHeader("big", strings.Repeat("h", n))
		_, err := cl.Ping(ctx, "x")
		return err
	}},
	{"string-only-argument(last)", func(cl *verifrpc.FStoreClient, ctx frugal.FContext, n int) error {
		_, err := cl.Ping(ctx, strings.Repeat("a", n))
		return err
	}},
	{"binary-argument", func(cl *verifrpc.FStoreClient, ctx frugal.FContext, n int) error {
		_, err := cl.Echo(ctx, bytes.Repeat([]byte{7}, n))
		return err
	}},
	{"struct-large-string-in-the-middle", func(cl *verifrpc.FStoreClient, ctx frugal.FContext, n int) error {
		name := strings.Repeat("m", n)
		return cl.Put(ctx, &verifbase.Item{ID: 1, Name: &name, Kinds: []verifbase.Kind{verifbase.Kind_A}, M: map[string][]int32{"k": {1}}, Blob: []byte{1}, Flag: true})
	}},
	{"struct-large-binary-near-the-end", func(cl *verifrpc.FStoreClient, ctx frugal.FContext, n int) error {
		return cl.Put(ctx, &verifbase.Item{ID: 1, Kinds: []verifbase.Kind{verifbase.Kind_A}, Blob: bytes.Repeat([]byte{9}, n), Flag: true})
	}},
	{"list-of-enums", func(cl *verifrpc.FStoreClient, ctx frugal.FContext, n int) error {
		ks := make([]verifbase.Kind, n/4+1)
		return cl.Put(ctx, &verifbase.Item{ID: 1, Kinds: ks})
	}},
	{"map-first-then-union", func(cl *verifrpc.FStoreClient, ctx frugal.FContext, n int) error {
		f := map[string]int64{}
		for i := 0; i < n/16+1; i++ {
			f[fmt.Sprintf("k%06d", i)] = int64(i)
		}
		b := "b"
		_, err := cl.Names(ctx, f, &verifrpc.Choice{B: &b})
		return err
	}},
	{"oneway-string", func(cl *verifrpc.FStoreClient, ctx frugal.FContext, n int) error {
		return cl.Fire(ctx, strings.Repeat("f", n), 1)
	}},
}

// framedSize runs the call against an unbounded capture transport and returns the framed size.
func framedSize(proto string, sh shape, n int) int {
	ct := &captureTransport{}
	cl := verifrpc.NewFStoreClient(frugal.NewFServiceProvider(ct, rig.ProtocolFactory(proto)))
	sh.call(cl, fixedCtx(), n)
	s := ct.take()
	if len(s) != 1 {
		return -1
	}
	return len(s[0])
}

// padFor finds a pad n with framedSize == target (sizes grow monotonically with n; steps may be > 1 for containers).
func padFor(proto string, sh shape, target int) (int, int) {
	lo, hi := 0, target+64
	for lo < hi {
		mid := (lo + hi) / 2
		if framedSize(proto, sh, mid) < target {
			lo = mid + 1
		} else {
			hi = mid
		}
	}
	return lo, framedSize(proto, sh, lo)
}

func clientPath(protos []string, limits []int) {
	for _, proto := range protos {
		for _, sh := range shapes {
			for _, L := range limits {
				for _, delta := range []int{-1, 0, 1, L} {
					target := L + delta
					n, size := padFor(proto, sh, target)
					if size < 0 || (size-target > 8 || target-size > 8) {
						continue // this shape cannot be sized near the target (its smallest message is larger)
					}
					ct := &captureTransport{limit: uint(L)}
					cl := verifrpc.NewFStoreClient(frugal.NewFServiceProvider(ct, rig.ProtocolFactory(proto)))
					err := sh.call(cl, fixedCtx(), n)
					sent := ct.take()
					rec := map[string]interface{}{"path": "client-request", "protocol": proto, "shape": sh.name, "limit": L, "framed_size": size, "pad": n}
					wantAccept := size <= L
					got := tooLargeType(err)
					if wantAccept {
						if len(sent) != 1 || len(sent[0]) != size || (got != "TIMED_OUT" && got != "ok") {
							violate("client-request/within-limit-rejected/"+sh.name, fmt.Sprintf("%s, %s: a request of %d framed bytes with limit %d: error %s, %d payload(s) handed to the transport", proto, sh.name, size, L, got, len(sent)), rec)
						}
					} else {
						if len(sent) != 0 || got != "REQUEST_TOO_LARGE" {
							total := 0
							for _, s := range sent {
								total += len(s)
							}
							violate("client-request/oversize-not-rejected/"+sh.name, fmt.Sprintf("%s, %s: a request of %d framed bytes with limit %d: error %s, %d bytes handed to the transport (must be REQUEST_TOO_LARGE and nothing transmitted)", proto, sh.name, size, L, got, total), rec)
						}
					}
					// the same client keeps working
					if err := sh.call(cl, fixedCtx(), 0); tooLargeType(err) != "TIMED_OUT" && tooLargeType(err) != "ok" {
						violate("client-request/next-call-fails/"+sh.name, fmt.Sprintf("%s, %s: the small call after a %d-byte request (limit %d) failed: %v", proto, sh.name, size, L, err), rec)
					}
					ct.take()
					res.Runs++
					res.Records = append(res.Records, rec)
				}
			}
		}
	}
}

func publishPath(protos []string, limits []int) {
	for _, proto := range protos {
		for _, L := range limits {
			// size of a publish with pad n
			size := func(n int) int {
				cp := &capturePublisher{}
				pub := verifrpc.NewEventsPublisher(frugal.NewFScopeProvider(&capturePubFactory{cp}, nil, rig.ProtocolFactory(proto)))
				name := strings.Repeat("p", n)
				pub.PublishItemAdded(fixedCtx(), "u", &verifbase.Item{ID: 1, Name: &name})
				if len(cp.sent) != 1 {
					return -1
				}
				return len(cp.sent[0])
			}
			base := size(0)
			for _, delta := range []int{-1, 0, 1, L} {
				target := L + delta
				n := target - base
				if n < 0 {
					continue
				}
				if size(n) != target {
					continue
				}
				cp := &capturePublisher{limit: uint(L)}
				pub := verifrpc.NewEventsPublisher(frugal.NewFScopeProvider(&capturePubFactory{cp}, nil, rig.ProtocolFactory(proto)))
				name := strings.Repeat("p", n)
				err := pub.PublishItemAdded(fixedCtx(), "u", &verifbase.Item{ID: 1, Name: &name})
				rec := map[string]interface{}{"path": "publish", "protocol": proto, "limit": L, "framed_size": target}
				got := tooLargeType(err)
				if target <= L && (got != "ok" || len(cp.sent) != 1) {
					violate("publish/within-limit-rejected", fmt.Sprintf("%s: publish of %d framed bytes, limit %d: %s", proto, target, L, got), rec)
				}
				if target > L && (got != "REQUEST_TOO_LARGE" || len(cp.sent) != 0) {
					violate("publish/oversize-not-rejected", fmt.Sprintf("%s: publish of %d framed bytes, limit %d: error %s, %d message(s) handed to the transport", proto, target, L, got, len(cp.sent)), rec)
				}
				res.Runs++
				res.Records = append(res.Records, rec)
			}
		}
	}
}

// countingRoundTripper records request / response body sizes of the HTTP transport.
type countingRT struct {
	reqs     int
	lastResp int
}

func (c *countingRT) RoundTrip(r *http.Request) (*http.Response, error) {
	c.reqs++
	resp, err := http.DefaultTransport.RoundTrip(r)
	if err == nil && resp.Body != nil {
		b, _ := io.ReadAll(resp.Body)
		resp.Body.Close()
		if d, e := base64.StdEncoding.DecodeString(string(b)); e == nil {
			c.lastResp = len(d)
		}
		resp.Body = io.NopCloser(bytes.NewReader(b))
	}
	return resp, err
}

func httpPath(protos []string, limits []int) {
	for _, proto := range protos {
		env, err := rig.Start("http", proto)
		if err != nil {
			os.Exit(2)
		}
		// request limit: nothing reaches the server when the request is too large
		for _, L := range limits {
			for _, sh := range shapes[:4] {
				for _, delta := range []int{-1, 0, 1} {
					n, size := padFor(proto, sh, L+delta)
					rt := &countingRT{}
					tr := frugal.NewFHTTPTransportBuilder(&http.Client{Transport: rt}, env.Addr).WithRequestSizeLimit(uint(L)).Build()
					tr.Open()
					cl := verifrpc.NewFStoreClient(frugal.NewFServiceProvider(tr, env.PF))
					before := len(env.Handler.Snapshot())
					err := sh.call(cl, fixedCtx(), n)
					after := len(env.Handler.Snapshot())
					rec := map[string]interface{}{"path": "http-request-limit", "protocol": proto, "shape": sh.name, "limit": L, "framed_size": size}
					got := tooLargeType(err)
					if size <= L && (got != "ok" || after != before+1) {
						violate("http-request/within-limit-rejected/"+sh.name, fmt.Sprintf("%s %s: request of %d framed bytes, limit %d: %s, handler calls %d", proto, sh.name, size, L, got, after-before), rec)
					}
					if size > L && (got != "REQUEST_TOO_LARGE" || rt.reqs != 0 || after != before) {
						violate("http-request/oversize-not-rejected/"+sh.name, fmt.Sprintf("%s %s: request of %d framed bytes, limit %d: error %s, %d HTTP requests made, %d handler calls", proto, sh.name, size, L, got, rt.reqs, after-before), rec)
					}
					if _, err := cl.Ping(fixedCtx(), "small"); err != nil {
						violate("http-request/next-call-fails", fmt.Sprintf("%s: small call after a %d-byte request failed: %v", proto, size, err), rec)
					}
					res.Runs++
					res.Records = append(res.Records, rec)
				}
			}
		}
		// client-requested response limit: the handler compares the unframed reply with the limit (413 -> RESPONSE_TOO_LARGE)
		for _, L := range limits {
			// measure the unframed reply size of ping for a reply of n0 characters
			reply := func(n int) int {
				rt := &countingRT{}
				tr := frugal.NewFHTTPTransportBuilder(&http.Client{Transport: rt}, env.Addr).Build()
				tr.Open()
				cl := verifrpc.NewFStoreClient(frugal.NewFServiceProvider(tr, env.PF))
				env.Handler.Script = func(string, int, []interface{}) rig.Outcome { return rig.Outcome{Kind: "return", BigReply: n} }
				cl.Ping(fixedCtx(), "x")
				return rt.lastResp - 4
			}
			base := reply(1) - 1
			for _, delta := range []int{-1, 0, 1, L} {
				target := L + delta // unframed reply size wanted
				n := target - base
				if n < 1 || reply(n) != target {
					continue
				}
				tr := frugal.NewFHTTPTransportBuilder(&http.Client{}, env.Addr).WithResponseSizeLimit(uint(L)).Build()
				tr.Open()
				cl := verifrpc.NewFStoreClient(frugal.NewFServiceProvider(tr, env.PF))
				env.Handler.Script = func(string, int, []interface{}) rig.Outcome { return rig.Outcome{Kind: "return", BigReply: n} }
				r, err := cl.Ping(fixedCtx(), "x")
				rec := map[string]interface{}{"path": "http-response-limit", "protocol": proto, "limit": L, "unframed_reply_size": target}
				got := tooLargeType(err)
				if target <= L && (got != "ok" || len(r) != n) {
					violate("http-response/within-limit-rejected", fmt.Sprintf("%s: reply of %d bytes, requested limit %d: %s", proto, target, L, got), rec)
				}
				if target > L && got != "RESPONSE_TOO_LARGE" {
					violate("http-response/oversize-not-reported", fmt.Sprintf("%s: reply of %d bytes, requested limit %d: caller got %s (must be RESPONSE_TOO_LARGE)", proto, target, L, got), rec)
				}
				env.Handler.Script = nil
				if _, err := cl.Ping(fixedCtx(), "small"); err != nil {
					violate("http-response/next-call-fails", fmt.Sprintf("%s: small call after a %d-byte reply failed: %v", proto, target, err), rec)
				}
				res.Runs++
				res.Records = append(res.Records, rec)
			}
		}
		env.Stop()
	}
}

const mib = 1024 * 1024

func natsPath(protos []string) {
	for _, proto := range protos {
		env, err := rig.Start("nats", proto)
		if err != nil {
			os.Exit(2)
		}
		cl, _, closeFn, err := env.Client()
		if err != nil {
			os.Exit(2)
		}
		// what leaves the client: a raw observer on the service subject
		oc, _ := env.Nats.Conn()
		var omu sync.Mutex
		var seenSizes []int
		oc.Subscribe(env.Addr, func(m *nats.Msg) {
			omu.Lock()
			seenSizes = append(seenSizes, len(m.Data))
			omu.Unlock()
		})
		oc.Flush()
		sh := shapes[2] // binary argument (echo): the reply is kept small by the script
		env.Handler.Script = func(m string, n int, a []interface{}) rig.Outcome { return rig.Outcome{Kind: "return"} }
		for _, delta := range []int{-1, 0, 1} {
			n, size := padFor(proto, shapes[1], mib+delta)
			omu.Lock()
			seenSizes = nil
			omu.Unlock()
			before := env.Handler.Count("ping")
			// ping echoes "pong:"+s: keep the reply small instead
			env.Handler.Script = func(m string, k int, a []interface{}) rig.Outcome { return rig.Outcome{Kind: "return", BigReply: 1} }
			err := shapes[1].call(cl, fixedCtx(), n)
			oc.Flush()
			time.Sleep(2 * time.Millisecond)
			omu.Lock()
			ns := len(seenSizes)
			omu.Unlock()
			rec := map[string]interface{}{"path": "nats-request", "protocol": proto, "limit": mib, "framed_size": size}
			got := tooLargeType(err)
			if size <= mib && (got != "ok" || env.Handler.Count("ping") != before+1) {
				violate("nats-request/within-limit-rejected", fmt.Sprintf("%s: request of %d framed bytes (limit %d): %s", proto, size, mib, got), rec)
			}
			if size > mib && (got != "REQUEST_TOO_LARGE" || ns != 0) {
				violate("nats-request/oversize-not-rejected", fmt.Sprintf("%s: request of %d framed bytes (limit %d): error %s, %d message(s) on the wire", proto, size, mib, got, ns), rec)
			}
			res.Runs++
			res.Records = append(res.Records, rec)
		}
		_ = sh
		// server-side reply limit: 1 MiB output buffer; the overflow must reach the caller as RESPONSE_TOO_LARGE
		inboxObs, _ := env.Nats.Conn()
		var rmu sync.Mutex
		lastReply := 0
		inboxObs.Subscribe("_INBOX.>", func(m *nats.Msg) {
			rmu.Lock()
			lastReply = len(m.Data)
			rmu.Unlock()
		})
		inboxObs.Flush()
		replySize := func(n int) (int, error) {
			env.Handler.Script = func(string, int, []interface{}) rig.Outcome { return rig.Outcome{Kind: "return", BigReply: n} }
			_, err := cl.Ping(fixedCtx(), "x")
			inboxObs.Flush()
			time.Sleep(time.Millisecond)
			rmu.Lock()
			defer rmu.Unlock()
			return lastReply, err
		}
		s0, _ := replySize(mib - 5000)
		base := s0 - (mib - 5000)
		for _, shapeName := range []string{"string-result-last"} {
			for _, delta := range []int{-1, 0, 1, 70000} {
				target := mib + delta
				n := target - base
				ctx := fixedCtx()
				ctx.SetTimeout(1500 * time.Millisecond)
				env.Handler.Script = func(string, int, []interface{}) rig.Outcome { return rig.Outcome{Kind: "return", BigReply: n} }
				r, err := cl.Ping(ctx, "x")
				rec := map[string]interface{}{"path": "nats-server-reply", "protocol": proto, "shape": shapeName, "limit": mib, "framed_reply_size": target}
				got := tooLargeType(err)
				if target <= mib && (got != "ok" || len(r) != n) {
					violate("nats-reply/within-limit-rejected", fmt.Sprintf("%s: reply of %d framed bytes (limit %d): caller got %s", proto, target, mib, got), rec)
				}
				if target > mib && got != "RESPONSE_TOO_LARGE" {
					violate("nats-reply/oversize-not-reported/"+got, fmt.Sprintf("%s: reply of %d framed bytes (limit %d): caller got %s (must be RESPONSE_TOO_LARGE, not a timeout or data)", proto, target, mib, got), rec)
				}
				env.Handler.Script = nil
				if _, err := cl.Ping(fixedCtx(), "small"); err != nil {
					violate("nats-reply/next-call-fails", fmt.Sprintf("%s: small call after a %d-byte reply failed: %v", proto, target, err), rec)
				}
				res.Runs++
				res.Records = append(res.Records, rec)
			}
		}
		// binary result (the large part is written with Write, not WriteString)
		env.Handler.Script = func(string, int, []interface{}) rig.Outcome { return rig.Outcome{Kind: "return", BigReply: mib + 5000} }
		_, err = cl.Echo(fixedCtx(), []byte{1})
		if got := tooLargeType(err); got != "RESPONSE_TOO_LARGE" {
			violate("nats-reply/oversize-not-reported/binary/"+got, fmt.Sprintf("%s: binary reply of more than 1 MiB: caller got %s", proto, got), nil)
		}
		res.Runs++
		env.Handler.Script = nil
		// publish limit of the NATS publisher transport (1 MiB)
		pc, _ := env.Nats.Conn()
		pub := verifrpc.NewEventsPublisher(frugal.NewFScopeProvider(frugal.NewFNatsPublisherTransportFactory(pc), nil, env.PF))
		pub.Open()
		for _, n := range []int{mib - 5000, mib + 200} {
			name := strings.Repeat("p", n)
			err := pub.PublishItemAdded(fixedCtx(), "u", &verifbase.Item{ID: 1, Name: &name})
			got := tooLargeType(err)
			if n > mib && got != "REQUEST_TOO_LARGE" {
				violate("nats-publish/oversize-not-rejected", fmt.Sprintf("%s: publish of > 1 MiB: %s", proto, got), nil)
			}
			if n < mib-1000 && got != "ok" {
				violate("nats-publish/within-limit-rejected", fmt.Sprintf("%s: publish of < 1 MiB: %s", proto, got), nil)
			}
			res.Runs++
		}
		closeFn()
		env.Stop()
	}
}

func main() {
	mode := flag.String("mode", "buffer", "buffer | e2e")
	in := flag.String("in", "", "")
	out := flag.String("out", "results.json", "")
	protos := flag.String("protocols", "binary,compact,json", "")
	flag.Parse()
	logrus.SetOutput(io.Discard)
	logrus.SetLevel(logrus.PanicLevel)
	ps := strings.Split(*protos, ",")
	// op ids are part of every message: make them all the same width (6 digits) for the whole run
	for {
		c := frugal.NewFContext("x")
		id, _ := c.RequestHeader("_opid")
		if len(id) >= 6 {
			break
		}
	}
	switch *mode {
	case "buffer":
		bufferMode(*in)
	case "e2e":
		clientPath(ps, []int{256, 1000})
		publishPath(ps, []int{128, 1000})
		httpPath(ps, []int{300, 2000})
		natsPath(ps)
	}
	b, _ := json.MarshalIndent(res, "", " ")
	os.WriteFile(*out, b, 0o644)
}
