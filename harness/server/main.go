// Command server is the conformance driver of the Server specification (C14):
// hand-built request frames of every kind (known method ok / malformed
// arguments / unknown method / declared exception / undeclared error /
// application exception / oneway / failing oneway) are sent to the real
// simple, HTTP and NATS servers wired to the generated processor with a
// scripted handler; raw reply frames are captured and parsed independently.
package main

import (
	"bytes"
	"context"
	"encoding/base64"
	"encoding/binary"
	"encoding/json"
	"flag"
	"fmt"
	"io"
	"net"
	"net/http"
	"os"
	"reflect"
	"strconv"
	"sync"
	"time"

	frugal "github.com/Workiva/frugal/lib/go"
	"github.com/apache/thrift/lib/go/thrift"
	"github.com/nats-io/nats.go"
	"github.com/sirupsen/logrus"

	"verifharness/gen/verifrpc"
	"verifharness/internal/rig"
	"verifharness/internal/wire"
)

type Reply struct {
	ID   int    `json:"id"`
	Type string `json:"type"`
	What string `json:"what"`
}

type Case struct {
	Kinds   []string `json:"kinds"`
	Replies []Reply  `json:"replies"`
	Calls   []int    `json:"calls"`
}

type Violation struct {
	Key    string      `json:"key"`
	Text   string      `json:"text"`
	Replay interface{} `json:"replay"`
}

type Results struct {
	Runs       int           `json:"runs"`
	Requests   int           `json:"requests"`
	Violations []Violation   `json:"violations"`
	Notes      []string      `json:"notes"`
	Samples    []interface{} `json:"samples"`
}

var res Results
var resMu sync.Mutex

// outcome code carried in the request (get's id argument / fire's n): the scripted handler obeys it
var outcomeOf = map[string]int64{"ok": 0, "overlimit": 0, "declared": 1, "undeclared": 2, "appex": 3, "oneway": 0, "onewayfail": 2}

// requests of kind "overlimit": an ordinary successful call whose caller accepts only a reply of a few bytes (HTTP:
// x-frugal-payload-limit; the other servers have no caller-side limit and answer it like any call)
var limited sync.Map

func isLimited(r []byte) bool { _, ok := limited.Load(string(r)); return ok }

func script(method string, n int, args []interface{}) rig.Outcome {
	var code int64
	switch method {
	case "get":
		code = args[0].(int64) % 10
	case "fire":
		code = args[1].(int64) % 10
	}
	switch code {
	case 1:
		return rig.Outcome{Kind: "declared"}
	case 2:
		return rig.Outcome{Kind: "undeclared"}
	case 3:
		return rig.Outcome{Kind: "appex"}
	}
	return rig.Outcome{Kind: "return"}
}

// request builds the unframed request message of the given kind; seq is the unique request number
// (encoded so that the handler log can be matched), opid the op id in the header.
func request(pf *frugal.FProtocolFactory, proto, kind string, seq int, opid uint64) []byte {
	buf := thrift.NewTMemoryBuffer()
	p := pf.GetProtocol(buf)
	fc := frugal.NewFContext(fmt.Sprintf("cid-%d", seq))
	fc.AddRequestHeader("_opid", strconv.FormatUint(opid, 10))
	p.WriteRequestHeader(fc)
	ctx := context.Background()
	switch kind {
	case "ok", "overlimit", "declared", "undeclared", "appex":
		p.WriteMessageBegin(ctx, "get", thrift.CALL, 0)
		a := verifrpc.StoreGetArgs{ID: verifrpc.ID(int64(seq)*10 + outcomeOf[kind])}
		a.Write(ctx, p)
		p.WriteMessageEnd(ctx)
	case "badargs":
		// malformed arguments inside a complete frame: an argument struct no decoder of that protocol accepts.
		// (Cutting the frame short instead would make a stream reader run on into the next frame.)
		p.WriteMessageBegin(ctx, "get", thrift.CALL, 0)
		p.Flush(ctx)
		switch proto {
		case "binary":
			buf.Write([]byte{0x63, 0x00, 0x01, 0xff, 0xff, 0xff, 0xff, 0x00}) // field of unknown wire type 0x63
		case "compact":
			buf.Write([]byte{0x1f, 0xff, 0xff, 0x00}) // field header with the invalid type nibble 0xF
		case "json":
			buf.Write([]byte(`,{"1":{"i64":"not-a-number"}}]`)) // value of the wrong JSON type
			return append([]byte(nil), buf.Bytes()...)
		}
		p.WriteMessageEnd(ctx)
	case "unknown":
		p.WriteMessageBegin(ctx, "nosuchmethod", thrift.CALL, 0)
		a := verifrpc.StoreAddArgs{A: 1, B: 2}
		a.Write(ctx, p)
		p.WriteMessageEnd(ctx)
	case "oneway", "onewayfail":
		p.WriteMessageBegin(ctx, "fire", thrift.ONEWAY, 0)
		a := verifrpc.StoreFireArgs{Ev: "ev", N: int64(seq)*10 + outcomeOf[kind]}
		a.Write(ctx, p)
		p.WriteMessageEnd(ctx)
	}
	p.Flush(ctx)
	return append([]byte(nil), buf.Bytes()...)
}

type parsed struct {
	OpID string
	Cid  string
	Type string
	What string
	Name string
	Err  string
}

// parseReply decodes a reply message (unframed) with the harness's own header parser and the thrift protocol.
func parseReply(pf *frugal.FProtocolFactory, msg []byte) parsed {
	var out parsed
	pairs, rest, err := wire.Parse(msg)
	if err != nil {
		out.Err = "headers: " + err.Error()
		return out
	}
	out.OpID, _ = wire.Get(pairs, "_opid")
	out.Cid, _ = wire.Get(pairs, "_cid")
	t := &thrift.TMemoryBuffer{Buffer: bytes.NewBuffer(rest)}
	p := pf.GetProtocol(t)
	ctx := context.Background()
	name, typ, _, err := p.ReadMessageBegin(ctx)
	if err != nil {
		out.Err = "message begin: " + err.Error()
		return out
	}
	out.Name = name
	switch typ {
	case thrift.EXCEPTION:
		out.Type = "EXCEPTION"
		ex := thrift.NewTApplicationException(0, "")
		if err := ex.Read(ctx, p); err != nil {
			out.Err = "exception body: " + err.Error()
			return out
		}
		switch ex.TypeId() {
		case frugal.APPLICATION_EXCEPTION_UNKNOWN_METHOD:
			out.What = "UNKNOWN_METHOD"
		case frugal.APPLICATION_EXCEPTION_PROTOCOL_ERROR:
			out.What = "PROTOCOL_ERROR"
		case frugal.APPLICATION_EXCEPTION_INTERNAL_ERROR:
			out.What = "INTERNAL_ERROR"
		case frugal.APPLICATION_EXCEPTION_INTERNAL_ERROR + 37:
			out.What = "handler-type"
		default:
			out.What = fmt.Sprintf("type-%d", ex.TypeId())
		}
	case thrift.REPLY:
		out.Type = "REPLY"
		r := verifrpc.StoreGetResult{}
		if err := r.Read(ctx, p); err != nil {
			out.Err = "result body: " + err.Error()
			return out
		}
		switch {
		case r.Success != nil && r.O == nil && r.D == nil:
			out.What = "result"
		case r.Success == nil && (r.O != nil) != (r.D != nil):
			out.What = "declared-exception"
		default:
			out.What = "malformed-result"
		}
	default:
		out.Type = fmt.Sprintf("message-type-%d", typ)
	}
	if err := p.ReadMessageEnd(ctx); err != nil {
		out.Err = "message end: " + err.Error()
	}
	if t.Len() != 0 {
		out.Err = fmt.Sprintf("%d trailing bytes after the reply message", t.Len())
	}
	return out
}

var opidSeq uint64 = 5000
var opidMu sync.Mutex

func nextOp() uint64 { opidMu.Lock(); defer opidMu.Unlock(); opidSeq++; return opidSeq }

// sendAll sends the requests of one connection and returns the parsed replies in arrival order.
type sender func(reqs [][]byte, twoWay int) ([][]byte, string)

func tcpSender(addr string) sender {
	return func(reqs [][]byte, twoWay int) ([][]byte, string) {
		conn, err := net.DialTimeout("tcp", addr, 2*time.Second)
		if err != nil {
			return nil, "dial: " + err.Error()
		}
		defer conn.Close()
		return connExchange(conn, reqs, twoWay)
	}
}

func connExchange(conn net.Conn, reqs [][]byte, twoWay int) ([][]byte, string) {
	{
		for _, r := range reqs {
			conn.Write(wire.Frame(r))
		}
		var out [][]byte
		for len(out) < len(reqs)+1 {
			wait := 1500 * time.Millisecond
			if len(out) >= twoWay {
				wait = 25 * time.Millisecond // one extra read: a surplus reply would show up here
			}
			conn.SetReadDeadline(time.Now().Add(wait))
			var sz [4]byte
			if _, err := io.ReadFull(conn, sz[:]); err != nil {
				break
			}
			n := binary.BigEndian.Uint32(sz[:])
			if n > 1<<24 {
				return out, fmt.Sprintf("reply frame size %d", n)
			}
			b := make([]byte, n)
			if _, err := io.ReadFull(conn, b); err != nil {
				return out, "truncated reply frame: " + err.Error()
			}
			out = append(out, b)
		}
		return out, ""
	}
}

// ---- a listener the driver feeds with connections (for transports that fail on demand) ----

type fakeListener struct {
	ch   chan thrift.TTransport
	quit chan struct{}
	once sync.Once
}

func (f *fakeListener) Listen() error { return nil }
func (f *fakeListener) Accept() (thrift.TTransport, error) {
	select {
	case t := <-f.ch:
		return t, nil
	case <-f.quit:
		return nil, fmt.Errorf("listener closed")
	}
}
func (f *fakeListener) Close() error     { f.once.Do(func() { close(f.quit) }); return nil }
func (f *fakeListener) Interrupt() error { return f.Close() }

// brokenPeer delivers the given bytes and fails every write: the peer vanished before its reply could be sent.
type brokenPeer struct {
	in      *bytes.Reader
	wrote   chan struct{}
	once    sync.Once
	release chan struct{}
}

func (b *brokenPeer) Open() error  { return nil }
func (b *brokenPeer) IsOpen() bool { return true }
func (b *brokenPeer) Close() error { return nil }
func (b *brokenPeer) Read(p []byte) (int, error) {
	if b.in.Len() == 0 {
		<-b.release
		return 0, thrift.NewTTransportExceptionFromError(io.EOF)
	}
	return b.in.Read(p)
}
func (b *brokenPeer) Write(p []byte) (int, error) {
	b.once.Do(func() { close(b.wrote) })
	return 0, thrift.NewTTransportException(thrift.NOT_OPEN, "broken pipe")
}
func (b *brokenPeer) Flush(ctx context.Context) error { return nil }
func (b *brokenPeer) RemainingBytes() uint64          { return ^uint64(0) }

// brokenPeers: for every request kind, one connection whose peer vanishes before the reply is written; afterwards
// a healthy connection must still get every kind of request answered (no request affects other connections).
func brokenPeers(proto string) {
	h := rig.NewHandler()
	h.Script = script
	pf := rig.ProtocolFactory(proto)
	proc := verifrpc.NewFStoreProcessor(h)
	ln := &fakeListener{ch: make(chan thrift.TTransport, 4), quit: make(chan struct{})}
	srv := frugal.NewFSimpleServer(proc, ln, pf)
	go srv.Serve()
	defer srv.Stop()
	env := &rig.Env{Kind: "tcp", Proto: proto, PF: pf, Handler: h, Processor: proc}
	kinds := []string{"ok", "unknown", "declared", "undeclared", "appex", "badargs", "onewayfail"}
	want := map[string]Reply{"ok": {0, "REPLY", "result"}, "declared": {0, "REPLY", "declared-exception"}, "unknown": {0, "EXCEPTION", "UNKNOWN_METHOD"},
		"undeclared": {0, "EXCEPTION", "INTERNAL_ERROR"}, "appex": {0, "EXCEPTION", "handler-type"}}
	for _, k := range kinds {
		bp := &brokenPeer{in: bytes.NewReader(wire.Frame(request(pf, proto, k, int(nextOp())*100+1, nextOp()))), wrote: make(chan struct{}), release: make(chan struct{})}
		ln.ch <- bp
		select {
		case <-bp.wrote:
		case <-time.After(2 * time.Second):
			res.Notes = append(res.Notes, "broken peer: the server never tried to write a reply for "+k)
		}
		// a healthy connection afterwards
		// a real (buffered) loopback connection pair for the healthy peer
		l, err := net.Listen("tcp", "127.0.0.1:0")
		if err != nil {
			fmt.Fprintln(os.Stderr, err)
			os.Exit(2)
		}
		cc, err := net.Dial("tcp", l.Addr().String())
		if err != nil {
			fmt.Fprintln(os.Stderr, err)
			os.Exit(2)
		}
		sc, err := l.Accept()
		l.Close()
		if err != nil {
			fmt.Fprintln(os.Stderr, err)
			os.Exit(2)
		}
		ln.ch <- thrift.NewTSocketFromConnConf(sc, nil)
		var reqs [][]byte
		ids := []uint64{}
		follow := []string{"ok", "unknown", "undeclared"}
		seqBase := int(nextOp()) * 100
		for i, fk := range follow {
			id := nextOp()
			ids = append(ids, id)
			reqs = append(reqs, request(pf, proto, fk, seqBase+i+1, id))
		}
		done := make(chan struct{})
		var raw [][]byte
		go func() { raw, _ = connExchange(cc, reqs, len(reqs)); close(done) }()
		select {
		case <-done:
		case <-time.After(4 * time.Second):
		}
		cc.Close()
		close(bp.release)
		rp := map[string]interface{}{"server": "simple", "protocol": proto, "request_on_broken_connection": k, "requests_on_healthy_connection": follow}
		if len(raw) != len(follow) {
			resMu.Lock()
			res.Violations = append(res.Violations, Violation{"tcp/broken-peer/other-connection-not-served/" + k, fmt.Sprintf("simple server, %s: after the reply to a %q request could not be written (peer gone), a healthy connection got %d of %d replies", proto, k, len(raw), len(follow)), rp})
			resMu.Unlock()
		} else {
			for i, m := range raw {
				p := parseReply(pf, m)
				w := want[follow[i]]
				if p.Err != "" || p.OpID != strconv.FormatUint(ids[i], 10) || p.Type != w.Type || p.What != w.What {
					resMu.Lock()
					res.Violations = append(res.Violations, Violation{"tcp/broken-peer/other-connection-reply/" + k, fmt.Sprintf("simple server, %s: after a failed reply write for %q, request %s on a healthy connection was answered %s %s %s", proto, k, follow[i], p.Type, p.What, p.Err), rp})
					resMu.Unlock()
				}
			}
		}
		resMu.Lock()
		res.Runs++
		res.Requests += 1 + len(follow)
		resMu.Unlock()
	}
	_ = env
}

func httpSender(url string) sender {
	hc := &http.Client{Timeout: 3 * time.Second}
	return func(reqs [][]byte, twoWay int) ([][]byte, string) {
		var out [][]byte
		for ri, r := range reqs {
			req, _ := http.NewRequest("POST", url, bytes.NewReader([]byte(base64.StdEncoding.EncodeToString(wire.Frame(r)))))
			req.Header.Set("Content-Type", "application/x-frugal")
			req.Header.Set("Content-Transfer-Encoding", "base64")
			if isLimited(r) {
				req.Header.Set("x-frugal-payload-limit", "8")
			}
			resp, err := hc.Do(req)
			if err != nil {
				return out, "http: " + err.Error()
			}
			body, _ := io.ReadAll(resp.Body)
			resp.Body.Close()
			if resp.StatusCode != 200 {
				out = append(out, []byte(fmt.Sprintf("HTTP-STATUS-%d:%d", resp.StatusCode, ri+1)))
				continue
			}
			b, err := base64.StdEncoding.DecodeString(string(body))
			if err != nil || len(b) < 4 {
				return out, "http body not a base64 frame"
			}
			if binary.BigEndian.Uint32(b) != uint32(len(b)-4) {
				return out, "http reply frame size mismatch"
			}
			if len(b) > 4 {
				out = append(out, b[4:])
			}
		}
		return out, ""
	}
}

var natsReplySeq int

func natsSender(nc *nats.Conn, subject string) sender {
	return func(reqs [][]byte, twoWay int) ([][]byte, string) {
		opidMu.Lock()
		natsReplySeq++
		inbox := fmt.Sprintf("c14.reply.%d", natsReplySeq)
		opidMu.Unlock()
		var mu sync.Mutex
		var out [][]byte
		sub, _ := nc.Subscribe(inbox, func(m *nats.Msg) {
			if m.Header.Get("Status") != "" || len(m.Data) < 4 {
				return
			}
			mu.Lock()
			out = append(out, append([]byte(nil), m.Data[4:]...))
			mu.Unlock()
		})
		defer sub.Unsubscribe()
		nc.Flush()
		for _, r := range reqs {
			nc.PublishRequest(subject, inbox, wire.Frame(r))
		}
		nc.Flush()
		dl := time.Now().Add(1500 * time.Millisecond)
		for {
			mu.Lock()
			n := len(out)
			mu.Unlock()
			if n >= twoWay || time.Now().After(dl) {
				break
			}
			time.Sleep(200 * time.Microsecond)
		}
		time.Sleep(10 * time.Millisecond) // a surplus reply would show up here
		mu.Lock()
		defer mu.Unlock()
		return append([][]byte(nil), out...), ""
	}
}

func runCase(env *rig.Env, send sender, c Case, label string, ordered bool) {
	pf := env.PF
	var reqs [][]byte
	ids := make([]uint64, len(c.Kinds))
	seqBase := int(nextOp()) * 100
	for i, k := range c.Kinds {
		ids[i] = nextOp()
		reqs = append(reqs, request(pf, env.Proto, k, seqBase+i+1, ids[i]))
		if k == "overlimit" {
			limited.Store(string(reqs[i]), true)
		}
	}
	// Server!ReplyOf("overlimit"): refused with the transport's "too large" status where the caller can state a limit
	// (HTTP 413, no frame), an ordinary reply everywhere else
	if env.Kind != "http" {
		rs := append([]Reply(nil), c.Replies...)
		for i := range rs {
			if rs[i].Type == "LIMIT" {
				rs[i].Type, rs[i].What = "REPLY", "result"
			}
		}
		c.Replies = rs
	}
	replay := map[string]interface{}{"server": label, "protocol": env.Proto, "case": c}
	fail := func(key, text string) {
		resMu.Lock()
		res.Violations = append(res.Violations, Violation{label + "/" + key, fmt.Sprintf("%s server, %s protocol, requests %v: %s", label, env.Proto, c.Kinds, text), replay})
		resMu.Unlock()
	}
	// what must come back: up to (and including) the first malformed-arguments request on a stream connection
	mandatory := c.Replies
	optionalTail := false
	if env.Kind == "tcp" {
		for i, k := range c.Kinds {
			if k == "badargs" {
				n := 0
				for _, r := range c.Replies {
					if r.ID <= i+1 {
						n++
					}
				}
				mandatory = c.Replies[:n]
				optionalTail = true
				break
			}
		}
	}
	expectN := len(c.Replies)
	if optionalTail {
		expectN = len(mandatory) // do not wait for replies the connection may never produce
	}
	raw, problem := send(reqs, expectN)
	if problem != "" {
		fail("transport", problem)
	}
	var got []Reply
	for _, m := range raw {
		if bytes.HasPrefix(m, []byte("HTTP-STATUS-413:")) {
			n, _ := strconv.Atoi(string(m[len("HTTP-STATUS-413:"):]))
			got = append(got, Reply{n, "LIMIT", "refused-or-result"})
			continue
		}
		p := parseReply(pf, m)
		if p.Err != "" {
			fail("reply-malformed", fmt.Sprintf("a reply frame could not be parsed (%s): % x", p.Err, m[:min(len(m), 64)]))
			continue
		}
		id := 0
		for i, op := range ids {
			if strconv.FormatUint(op, 10) == p.OpID {
				id = i + 1
			}
		}
		if id == 0 {
			fail("reply-opid", fmt.Sprintf("a reply carries op id %q which belongs to no request of this connection", p.OpID))
			continue
		}
		if want := fmt.Sprintf("cid-%d", seqBase+id); p.Cid != want {
			fail("reply-cid", fmt.Sprintf("reply to request %d carries correlation id %q, the request had %q", id, p.Cid, want))
		}
		got = append(got, Reply{id, p.Type, p.What})
	}
	cmp := append([]Reply(nil), got...)
	if !ordered {
		// independent messages (NATS workers): compare as sets
		for i := range cmp {
			for j := i + 1; j < len(cmp); j++ {
				if cmp[j].ID < cmp[i].ID {
					cmp[i], cmp[j] = cmp[j], cmp[i]
				}
			}
		}
	}
	okFull := reflect.DeepEqual(cmp, c.Replies) || (len(cmp) == 0 && len(c.Replies) == 0)
	okPrefix := optionalTail && len(cmp) >= len(mandatory) && len(cmp) <= len(c.Replies) && reflect.DeepEqual(cmp, c.Replies[:len(cmp)])
	if !okFull && !okPrefix {
		key := "reply-list"
		switch {
		case len(cmp) < len(mandatory):
			key = "reply-missing"
		case len(cmp) > len(c.Replies):
			key = "reply-surplus"
		default:
			for i := range cmp {
				if i < len(c.Replies) && cmp[i] != c.Replies[i] {
					key = "reply-kind/" + c.Kinds[c.Replies[i].ID-1] + "/" + cmp[i].What
					break
				}
			}
		}
		fail(key, fmt.Sprintf("replies observed %v, the specification says %v", got, c.Replies))
	}
	resMu.Lock()
	res.Runs++
	res.Requests += len(reqs)
	if len(res.Samples) < 3 && len(c.Kinds) >= 3 {
		res.Samples = append(res.Samples, map[string]interface{}{"server": label, "protocol": env.Proto, "kinds": c.Kinds, "replies": got})
	}
	resMu.Unlock()
}

// concurrentPairs forces the interleaving "A's handler has returned, A's reply is not yet written; B is processed
// completely; then A continues" with a gate in an 'after' middleware: replies of concurrently processed requests
// must not be mixed up.
func concurrentPairs(kind, proto string) {
	parked := make(chan struct{}, 1)
	release := make(chan struct{})
	var holdSeq int64 = -1
	var hmu sync.Mutex
	gate := func(next frugal.InvocationHandler) frugal.InvocationHandler {
		return func(svc reflect.Value, m reflect.Method, args frugal.Arguments) frugal.Results {
			r := next(svc, m, args)
			if id, ok := args[1].(verifrpc.ID); ok {
				hmu.Lock()
				hold := int64(id)/10 == holdSeq
				hmu.Unlock()
				if hold {
					parked <- struct{}{}
					<-release
				}
			}
			return r
		}
	}
	env, err := rig.Start(kind, proto, gate)
	if err != nil {
		fmt.Fprintln(os.Stderr, err)
		os.Exit(2)
	}
	defer env.Stop()
	env.Handler.Script = script
	outcomes := []string{"ok", "declared", "undeclared", "appex"}
	want := map[string]Reply{"ok": {0, "REPLY", "result"}, "declared": {0, "REPLY", "declared-exception"},
		"undeclared": {0, "EXCEPTION", "INTERNAL_ERROR"}, "appex": {0, "EXCEPTION", "handler-type"}}
	mk := func() sender {
		switch kind {
		case "tcp":
			return tcpSender(env.Addr)
		case "http":
			return httpSender(env.Addr)
		}
		nc, _ := env.Nats.Conn()
		return natsSender(nc, env.Addr)
	}
	for _, ka := range outcomes {
		for _, kb := range outcomes {
			if ka == kb {
				continue
			}
			seqA, seqB := int(nextOp())*100+1, int(nextOp())*100+2
			opA, opB := nextOp(), nextOp()
			reqA := request(env.PF, proto, ka, seqA, opA)
			reqB := request(env.PF, proto, kb, seqB, opB)
			hmu.Lock()
			holdSeq = int64(seqA)
			hmu.Unlock()
			release = make(chan struct{})
			type out struct {
				raw [][]byte
				p   string
			}
			ca := make(chan out, 1)
			sa, sb := mk(), mk()
			go func() { r, p := sa([][]byte{reqA}, 1); ca <- out{r, p} }()
			label := kind + "/concurrent-pair"
			rp := map[string]interface{}{"server": kind, "protocol": proto, "held_request": ka, "overtaking_request": kb}
			select {
			case <-parked:
			case <-time.After(2 * time.Second):
				res.Notes = append(res.Notes, "concurrent pair: request A never reached the gate")
				close(release)
				<-ca
				continue
			}
			rb, _ := sb([][]byte{reqB}, 1)
			close(release)
			ra := <-ca
			check := func(name string, raw [][]byte, k string, op uint64) {
				if len(raw) != 1 {
					resMu.Lock()
					res.Violations = append(res.Violations, Violation{label + "/reply-count", fmt.Sprintf("%s server, %s: request %s (%s) got %d replies while another request (%s / %s) was processed concurrently", kind, proto, name, k, len(raw), ka, kb), rp})
					resMu.Unlock()
					return
				}
				p := parseReply(env.PF, raw[0])
				w := want[k]
				if p.Err != "" || p.OpID != strconv.FormatUint(op, 10) || p.Type != w.Type || p.What != w.What {
					resMu.Lock()
					res.Violations = append(res.Violations, Violation{label + "/reply-mixed-up/" + k, fmt.Sprintf("%s server, %s: request %s (handler outcome %s, op id %d) was answered with %s %s (op id %s, %s) while request with outcome %s was processed between its handler's return and its reply", kind, proto, name, k, op, p.Type, p.What, p.OpID, p.Err, map[string]string{"A": kb, "B": ka}[name]), rp})
					resMu.Unlock()
				}
			}
			check("A", ra.raw, ka, opA)
			check("B", rb, kb, opB)
			resMu.Lock()
			res.Runs++
			res.Requests += 2
			resMu.Unlock()
		}
	}
	hmu.Lock()
	holdSeq = -1
	hmu.Unlock()
}

func min(a, b int) int {
	if a < b {
		return a
	}
	return b
}

func main() {
	in := flag.String("in", "", "server_cases.json")
	out := flag.String("out", "results.json", "")
	servers := flag.String("servers", "tcp,http,nats", "")
	protos := flag.String("protocols", "binary,compact,json", "")
	stride := flag.Int("stride", 1, "")
	offset := flag.Int("offset", 0, "")
	parallel := flag.Int("parallel", 4, "connections run concurrently")
	flag.Parse()
	logrus.SetOutput(io.Discard)
	logrus.SetLevel(logrus.PanicLevel)
	raw, err := os.ReadFile(*in)
	if err != nil {
		fmt.Fprintln(os.Stderr, err)
		os.Exit(2)
	}
	var cases []Case
	if err := json.Unmarshal(raw, &cases); err != nil {
		fmt.Fprintln(os.Stderr, err)
		os.Exit(2)
	}
	pi := 0
	for _, kind := range split(*servers) {
		for _, proto := range split(*protos) {
			pi++
			env, err := rig.Start(kind, proto)
			if err != nil {
				fmt.Fprintln(os.Stderr, err)
				os.Exit(2)
			}
			env.Handler.Script = script
			var mk func() sender
			switch kind {
			case "tcp":
				mk = func() sender { return tcpSender(env.Addr) }
			case "http":
				mk = func() sender { return httpSender(env.Addr) }
			case "nats":
				nc, _ := env.Nats.Conn()
				mk = func() sender { return natsSender(nc, env.Addr) }
			}
			// the same sequences on several connections at once: other connections must never matter
			var wg sync.WaitGroup
			ch := make(chan Case, *parallel)
			for w := 0; w < *parallel; w++ {
				wg.Add(1)
				go func() {
					defer wg.Done()
					s := mk()
					for c := range ch {
						runCase(env, s, c, kind, kind != "nats")
					}
				}()
			}
			for i, c := range cases {
				if (i+*offset+pi)%*stride != 0 {
					continue
				}
				resMu.Lock()
				n := len(res.Violations)
				resMu.Unlock()
				if n >= 12 {
					break
				}
				ch <- c
			}
			close(ch)
			wg.Wait()
			// handler invocations: each request that reaches a handler does so exactly once
			seen := map[string]int{}
			for _, call := range env.Handler.Snapshot() {
				var code int64
				switch call.Method {
				case "get":
					code = call.Args[0].(int64)
				case "fire":
					code = call.Args[1].(int64)
				}
				seen[fmt.Sprintf("%s/%d", call.Method, code/10)]++
			}
			for k, n := range seen {
				if n != 1 {
					res.Violations = append(res.Violations, Violation{kind + "/handler-invoked-" + strconv.Itoa(n) + "-times", fmt.Sprintf("%s server, %s protocol: handler for request %s ran %d times", kind, proto, k, n), nil})
				}
			}
			env.Stop()
			concurrentPairs(kind, proto)
			if kind == "tcp" {
				brokenPeers(proto)
			}
		}
	}
	b, _ := json.MarshalIndent(res, "", " ")
	os.WriteFile(*out, b, 0o644)
}

func split(s string) []string {
	var out []string
	cur := ""
	for _, r := range s {
		if r == ',' {
			out = append(out, cur)
			cur = ""
		} else {
			cur += string(r)
		}
	}
	if cur != "" {
		out = append(out, cur)
	}
	return out
}
