// Command natssrv is the conformance driver of the NatsServer specification
// (C20): the real fNatsServer runs on an embedded nats-server with a stub
// processor that reports handler start / end and can hold requests; the driver
// publishes bursts, calls Stop at a chosen position, publishes late requests
// and observes the replies.  Direct oracle + event trace for TLC.
package main

import (
	"bufio"
	"encoding/json"
	"flag"
	"fmt"
	"io"
	"os"
	"strconv"
	"sync"
	"time"

	frugal "github.com/Workiva/frugal/lib/go"
	"github.com/nats-io/nats.go"
	"github.com/sirupsen/logrus"

	"verifharness/internal/brokers"
	"verifharness/internal/rig"
	"verifharness/internal/wire"
)

type Case struct {
	Workers   int    `json:"workers"`
	QLen      int    `json:"qlen"`
	Burst     int    `json:"burst"`
	StopAfter int    `json:"stop_after"`
	Hold      string `json:"hold"`
	Late      int    `json:"late"`
}

type Violation struct {
	Key    string      `json:"key"`
	Text   string      `json:"text"`
	Replay interface{} `json:"replay"`
}

type Results struct {
	Runs       int           `json:"runs"`
	Requests   int           `json:"requests"`
	Violations []Violation   `json:"violations"`
	Notes      []string      `json:"notes"`
	Samples    []interface{} `json:"samples"`
}

var res Results

// stubProcessor: the request payload (after the frugal headers) is the decimal request id.
type stubProcessor struct {
	onStart func(id int)
	onEnd   func(id int)
}

func (s *stubProcessor) Process(in, out *frugal.FProtocol) error {
	ctx, err := in.ReadRequestHeader()
	if err != nil {
		return err
	}
	b, _ := io.ReadAll(in.Transport())
	id, _ := strconv.Atoi(string(b))
	s.onStart(id)
	if err := out.WriteResponseHeader(ctx); err != nil {
		return err
	}
	out.Transport().Write([]byte(strconv.Itoa(id)))
	s.onEnd(id)
	return nil
}
func (s *stubProcessor) AddMiddleware(frugal.ServiceMiddleware)    {}
func (s *stubProcessor) Annotations() map[string]map[string]string { return nil }

var runSeq int

func runCase(srv *brokers.Nats, c Case, traces map[string]*bufio.Writer) {
	runSeq++
	subject := fmt.Sprintf("c20.svc.%d", runSeq)
	obsSubject := fmt.Sprintf("c20.obs.%d", runSeq)
	sconn, _ := srv.Conn()
	pconn, _ := srv.Conn()
	oconn, _ := srv.Conn()
	defer sconn.Close()
	defer pconn.Close()
	defer oconn.Close()
	var mu sync.Mutex
	var events []string
	ev := func(name string, id int) {
		events = append(events, fmt.Sprintf("{\"ev\":%q,\"id\":%d}", name, id))
	}
	starts := map[int]int{}
	seen := map[int]int{}
	stopCalled := make(chan struct{})
	proc := &stubProcessor{}
	proc.onStart = func(id int) {
		mu.Lock()
		starts[id]++
		ev("start", id)
		mu.Unlock()
		switch c.Hold {
		case "hold-until-stop":
			select {
			case <-stopCalled:
				time.Sleep(500 * time.Microsecond)
			case <-time.After(3 * time.Second):
			}
		case "slow":
			time.Sleep(time.Millisecond)
		case "beyond-watermark":
			select {
			case <-stopCalled:
			case <-time.After(3 * time.Second):
			}
			time.Sleep(80 * time.Millisecond) // eight high watermarks inside the handler while the server shuts down
		}
	}
	proc.onEnd = func(id int) {
		mu.Lock()
		ev("end", id)
		mu.Unlock()
	}
	oconn.Subscribe(obsSubject+".*", func(m *nats.Msg) {
		if m.Header.Get("Status") != "" {
			return // NATS "no responders" status for a late request: not a reply
		}
		// reply frame: size prefix + headers + id
		if len(m.Data) < 4 {
			return
		}
		_, rest, err := wire.Parse(m.Data[4:])
		if err != nil {
			return
		}
		id, _ := strconv.Atoi(string(rest))
		mu.Lock()
		seen[id]++
		ev("seen", id)
		mu.Unlock()
	})
	oconn.Flush()
	server := frugal.NewFNatsServerBuilder(sconn, proc, rig.ProtocolFactory("binary"), []string{subject}).
		WithWorkerCount(uint(c.Workers)).WithQueueLength(uint(c.QLen)).WithHighWatermark(map[bool]time.Duration{true: 10 * time.Millisecond, false: 5 * time.Second}[c.Hold == "beyond-watermark"]).Build()
	serveDone := make(chan struct{})
	go func() {
		server.Serve()
		mu.Lock()
		ev("serveret", 0)
		mu.Unlock()
		close(serveDone)
	}()
	// wait until the subject has a responder
	for i := 0; i < 2000; i++ {
		sconn.Flush()
		m, err := pconn.Request(subject, nil, 5*time.Millisecond)
		if err == nats.ErrTimeout || (err == nil && m != nil && m.Header.Get("Status") == "") {
			break
		}
		time.Sleep(200 * time.Microsecond)
	}
	replay := map[string]interface{}{"case": c}
	fail := func(key, text string) {
		res.Violations = append(res.Violations, Violation{key, fmt.Sprintf("workers=%d queue=%d burst=%d stop after %d, handlers %s: %s", c.Workers, c.QLen, c.Burst, c.StopAfter, c.Hold, text), replay})
	}
	next := 0
	publish := func() int {
		next++
		id := next
		msg := wire.OpFrame(uint64(1000+id), []byte(strconv.Itoa(id)))
		// logged before the publish so that it precedes the handler's start; the publish is flushed before
		// the driver's next step, so "pub before stopcall" still means "flushed before Stop was called"
		mu.Lock()
		ev("pub", id)
		mu.Unlock()
		pconn.PublishRequest(subject, fmt.Sprintf("%s.%d", obsSubject, id), msg)
		pconn.Flush()
		res.Requests++
		return id
	}
	accepted := []int{}
	for i := 0; i < c.StopAfter; i++ {
		accepted = append(accepted, publish())
	}
	stopRet := make(chan error, 1)
	mu.Lock()
	ev("stopcall", 0)
	mu.Unlock()
	go func() {
		err := server.Stop()
		mu.Lock()
		ev("stopret", 0)
		mu.Unlock()
		stopRet <- err
	}()
	time.Sleep(300 * time.Microsecond)
	close(stopCalled)
	// requests racing the shutdown: neither promised nor forbidden
	for i := c.StopAfter; i < c.Burst; i++ {
		publish()
	}
	wedged := false
	select {
	case <-stopRet:
	case <-time.After(5 * time.Second):
		fail("stop-never-returned", "Stop did not return within 5 s")
		wedged = true
	}
	var late []int
	if !wedged {
		for i := 0; i < c.Late; i++ {
			late = append(late, publish())
		}
		select {
		case <-serveDone:
		case <-time.After(5 * time.Second):
			fail("serve-never-returned", "Serve did not return within 5 s after Stop returned")
			wedged = true
		}
	}
	// every reply published before Serve returned is visible after a round trip on the observer connection
	sconn.Flush()
	oconn.Flush()
	time.Sleep(2 * time.Millisecond)
	oconn.Flush()
	mu.Lock()
	if !wedged {
		for _, id := range accepted {
			if starts[id] != 1 {
				fail("accepted-request-processed-"+strconv.Itoa(starts[id])+"-times", fmt.Sprintf("request %d was published (and flushed) before Stop was called but its handler ran %d times", id, starts[id]))
			}
			if seen[id] != 1 {
				fail("accepted-request-replies-"+strconv.Itoa(seen[id]), fmt.Sprintf("request %d was accepted before Stop but %d replies were observable after Serve returned", id, seen[id]))
			}
		}
		for _, id := range late {
			if starts[id] != 0 {
				fail("late-request-processed", fmt.Sprintf("request %d was published after Stop returned and was processed", id))
			}
		}
		for id, n := range starts {
			if n > 1 {
				fail("processed-twice", fmt.Sprintf("request %d was processed %d times", id, n))
			}
		}
	}
	evs := append([]string(nil), events...)
	mu.Unlock()
	if !wedged {
		key := fmt.Sprintf("w%d_q%d", c.Workers, c.QLen)
		if w := traces[key]; w != nil {
			for _, e := range evs {
				w.WriteString(e + "\n")
			}
			w.WriteString("{\"ev\":\"reset\",\"id\":0}\n")
		}
	}
	res.Runs++
	if len(res.Samples) < 3 && c.Burst >= 3 && c.Hold != "fast" {
		res.Samples = append(res.Samples, map[string]interface{}{"case": c, "events": evs})
	}
}

// earlyStop: Stop is called before Serve has parked on its quit channel (position 0 of the request stream,
// racing the start-up). Stop must wait for Serve, both must return, and requests published after Stop
// returned must not be processed.
func earlyStop(srv *brokers.Nats, workers, qlen int, traces map[string]*bufio.Writer) {
	runSeq++
	subject := fmt.Sprintf("c20.svc.%d", runSeq)
	sconn, _ := srv.Conn()
	pconn, _ := srv.Conn()
	defer sconn.Close()
	defer pconn.Close()
	var mu sync.Mutex
	var events []string
	starts := 0
	proc := &stubProcessor{onStart: func(id int) {
		mu.Lock()
		starts++
		events = append(events, fmt.Sprintf("{\"ev\":\"start\",\"id\":%d}", id))
		mu.Unlock()
	},
		onEnd: func(id int) {
			mu.Lock()
			events = append(events, fmt.Sprintf("{\"ev\":\"end\",\"id\":%d}", id))
			mu.Unlock()
		}}
	server := frugal.NewFNatsServerBuilder(sconn, proc, rig.ProtocolFactory("binary"), []string{subject}).
		WithWorkerCount(uint(workers)).WithQueueLength(uint(qlen)).Build()
	c := Case{Workers: workers, QLen: qlen, Hold: "early-stop"}
	fail := func(key, text string) {
		res.Violations = append(res.Violations, Violation{key, fmt.Sprintf("workers=%d queue=%d, Stop called before Serve was running: %s", workers, qlen, text), map[string]interface{}{"case": c}})
	}
	stopRet := make(chan struct{})
	mu.Lock()
	events = append(events, "{\"ev\":\"stopcall\",\"id\":0}")
	mu.Unlock()
	go func() {
		server.Stop()
		mu.Lock()
		events = append(events, "{\"ev\":\"stopret\",\"id\":0}")
		mu.Unlock()
		close(stopRet)
	}()
	time.Sleep(2 * time.Millisecond) // Stop is (or should be) parked on the hand-off now
	serveDone := make(chan struct{})
	go func() {
		server.Serve()
		mu.Lock()
		events = append(events, "{\"ev\":\"serveret\",\"id\":0}")
		mu.Unlock()
		close(serveDone)
	}()
	wedged := false
	select {
	case <-stopRet:
	case <-time.After(5 * time.Second):
		fail("stop-never-returned", "Stop did not return within 5 s")
		wedged = true
	}
	if !wedged {
		// published after Stop returned: must not be processed
		for id := 1; id <= 2; id++ {
			mu.Lock()
			events = append(events, fmt.Sprintf("{\"ev\":\"pub\",\"id\":%d}", id))
			mu.Unlock()
			pconn.PublishRequest(subject, "c20.none", wire.OpFrame(uint64(2000+id), []byte(strconv.Itoa(id))))
			pconn.Flush()
		}
		select {
		case <-serveDone:
		case <-time.After(5 * time.Second):
			fail("serve-never-returned", "Serve was still running 5 s after Stop returned (the stop request was lost)")
			wedged = true
		}
		time.Sleep(2 * time.Millisecond)
		mu.Lock()
		if starts != 0 {
			fail("late-request-processed", fmt.Sprintf("%d request(s) published after Stop returned were processed", starts))
		}
		mu.Unlock()
	}
	if wedged {
		// do not leave the server running behind
		go server.Stop()
	} else if w := traces[fmt.Sprintf("w%d_q%d", workers, qlen)]; w != nil {
		mu.Lock()
		for _, e := range events {
			w.WriteString(e + "\n")
		}
		mu.Unlock()
		w.WriteString("{\"ev\":\"reset\",\"id\":0}\n")
	}
	res.Runs++
}

func main() {
	in := flag.String("in", "", "natssrv_cases.json")
	out := flag.String("out", "results.json", "")
	tracedir := flag.String("tracedir", "", "")
	stride := flag.Int("stride", 1, "")
	offset := flag.Int("offset", 0, "")
	flag.Parse()
	logrus.SetOutput(io.Discard)
	logrus.SetLevel(logrus.PanicLevel)
	raw, err := os.ReadFile(*in)
	if err != nil {
		fmt.Fprintln(os.Stderr, err)
		os.Exit(2)
	}
	var cases []Case
	if err := json.Unmarshal(raw, &cases); err != nil {
		fmt.Fprintln(os.Stderr, err)
		os.Exit(2)
	}
	srv, err := brokers.StartNats()
	if err != nil {
		fmt.Fprintln(os.Stderr, err)
		os.Exit(2)
	}
	traces := map[string]*bufio.Writer{}
	if *tracedir != "" {
		for _, c := range cases {
			key := fmt.Sprintf("w%d_q%d", c.Workers, c.QLen)
			if traces[key] == nil {
				f, err := os.Create(fmt.Sprintf("%s/natssrv_%s.ndjson", *tracedir, key))
				if err != nil {
					os.Exit(2)
				}
				defer f.Close()
				w := bufio.NewWriter(f)
				defer w.Flush()
				traces[key] = w
			}
		}
	}
	for i, c := range cases {
		if (i+*offset)%*stride != 0 {
			continue
		}
		if len(res.Violations) >= 12 {
			break
		}
		runCase(srv, c, traces)
	}
	for w := 1; w <= 3; w++ {
		for q := 0; q <= 2; q++ {
			if traces[fmt.Sprintf("w%d_q%d", w, q)] != nil || *tracedir == "" {
				earlyStop(srv, w, q, traces)
			}
		}
	}
	b, _ := json.MarshalIndent(res, "", " ")
	os.WriteFile(*out, b, 0o644)
}
