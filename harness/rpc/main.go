// Command rpc is the conformance driver of the Rpc specification (C03): call
// sequences enumerated by TLC (method x argument class x handler outcome) run
// through the generated client and processor over every transport and
// protocol; the handler's recorded arguments, the number of invocations, the
// reply frames produced and what the caller observes must be what Rpc says.
package main

import (
	"encoding/json"
	"errors"
	"flag"
	"fmt"
	"io"
	"math"
	"net/http"
	"os"
	"reflect"
	"runtime"
	"sort"
	"strings"
	"sync/atomic"
	"time"

	frugal "github.com/Workiva/frugal/lib/go"
	"github.com/apache/thrift/lib/go/thrift"
	"github.com/sirupsen/logrus"

	"verifharness/gen/verifbase"
	"verifharness/gen/verifrpc"
	"verifharness/internal/rig"
)

type One struct {
	M         string `json:"m"`
	O         string `json:"o"`
	Args      string `json:"args"`
	Observes  string `json:"observes"`
	Kind      string `json:"kind"`
	Frames    int    `json:"frames"`
	Inherited bool   `json:"inherited"`
	Fault     string `json:"fault"`
}

type Violation struct {
	Key    string      `json:"key"`
	Text   string      `json:"text"`
	Replay interface{} `json:"replay"`
}

type Results struct {
	Runs       int            `json:"runs"`
	Calls      int            `json:"calls"`
	PerCombo   map[string]int `json:"calls_per_transport_protocol"`
	Violations []Violation    `json:"violations"`
	Samples    []interface{}  `json:"samples"`
	Unusable   []string       `json:"unusable_combinations"`
}

var res = Results{PerCombo: map[string]int{}}

// driverStacks returns the stacks of the goroutines that belong to the driver and the library (for diagnostics).
func driverStacks() string {
	buf := make([]byte, 1<<20)
	var keep []string
	for _, g := range strings.Split(string(buf[:runtime.Stack(buf, true)]), "\n\n") {
		if strings.Contains(g, "main.main") || strings.Contains(g, "frugal/lib/go.") {
			if len(g) > 1500 {
				g = g[:1500]
			}
			keep = append(keep, g)
		}
	}
	out := strings.Join(keep, "\n\n")
	if len(out) > 12000 {
		out = out[:12000]
	}
	return out
}

func violate(key, text string, replay interface{}) {
	if len(res.Violations) < 40 {
		res.Violations = append(res.Violations, Violation{key, text, replay})
	}
}

func sp(s string) *string { return &s }
func ip(i int32) *int32   { return &i }

func allBytes() []byte {
	b := make([]byte, 256)
	for i := range b {
		b[i] = byte(i)
	}
	return b
}

// arguments per method and class
func argsFor(m, class string) []interface{} {
	switch m {
	case "ping", "note":
		return []interface{}{map[string]string{"zero": "", "typical": "hello", "edge": "héllo 日本\x00\n\"quoted\"\\"}[class]}
	case "get":
		return []interface{}{map[string]int64{"zero": 0, "typical": 42, "edge": math.MinInt64}[class]}
	case "put":
		switch class {
		case "zero":
			return []interface{}{&verifbase.Item{}}
		case "typical":
			return []interface{}{&verifbase.Item{ID: 7, Name: sp("n"), Kinds: []verifbase.Kind{verifbase.Kind_A, verifbase.Kind_B}, M: map[string][]int32{"k": {1, 2}}, Blob: []byte{1, 2, 3}, Flag: true}}
		default:
			return []interface{}{&verifbase.Item{ID: -1, Name: sp(""), Kinds: []verifbase.Kind{}, M: map[string][]int32{"": {}, "ü": {math.MaxInt32, math.MinInt32}}, Blob: allBytes(), Flag: false}}
		}
	case "add":
		switch class {
		case "zero":
			return []interface{}{int32(0), int32(0)}
		case "typical":
			return []interface{}{int32(2), int32(3)}
		default:
			return []interface{}{int32(math.MaxInt32), int32(math.MinInt32)}
		}
	case "names":
		switch class {
		case "zero":
			return []interface{}{map[string]int64{}, &verifrpc.Choice{A: ip(0)}}
		case "typical":
			return []interface{}{map[string]int64{"a": 1, "b": 2}, &verifrpc.Choice{B: sp("x")}}
		default:
			m := map[string]int64{"": math.MinInt64}
			for i := 0; i < 40; i++ {
				m[fmt.Sprintf("k-%d-é", i)] = int64(i) << 40
			}
			return []interface{}{m, &verifrpc.Choice{A: ip(-1)}}
		}
	case "echo":
		switch class {
		case "zero":
			return []interface{}{[]byte{}}
		case "typical":
			return []interface{}{[]byte{9, 8, 7}}
		default:
			b := make([]byte, 70000)
			for i := range b {
				b[i] = byte(i * 7)
			}
			return []interface{}{b}
		}
	case "fire":
		switch class {
		case "zero":
			return []interface{}{"", int64(0)}
		case "typical":
			return []interface{}{"ev", int64(5)}
		default:
			return []interface{}{"événement\x01", int64(-1)}
		}
	}
	return nil
}

// norm makes nil and empty containers equal and sorts nothing: used for DeepEqual of arguments / values.
func norm(v interface{}) interface{} {
	b, _ := json.Marshal(v)
	var o interface{}
	json.Unmarshal(b, &o)
	return dropNulls(o)
}

func dropNulls(v interface{}) interface{} {
	switch x := v.(type) {
	case map[string]interface{}:
		o := map[string]interface{}{}
		for k, e := range x {
			e = dropNulls(e)
			if e == nil {
				continue
			}
			if l, ok := e.([]interface{}); ok && len(l) == 0 {
				continue
			}
			if m, ok := e.(map[string]interface{}); ok && len(m) == 0 {
				continue
			}
			if s, ok := e.(string); ok && s == "" && k == "blob" {
				continue // base64 of an empty binary: nil and empty are the same value on the wire
			}
			o[k] = e
		}
		return o
	case []interface{}:
		o := make([]interface{}, len(x))
		for i, e := range x {
			o[i] = dropNulls(e)
		}
		return o
	}
	return v
}

func call(cl *verifrpc.FStoreClient, ctx frugal.FContext, m string, a []interface{}) (interface{}, error) {
	switch m {
	case "ping":
		return cl.Ping(ctx, a[0].(string))
	case "note":
		return nil, cl.Note(ctx, a[0].(string))
	case "get":
		return cl.Get(ctx, verifrpc.ID(a[0].(int64)))
	case "put":
		return nil, cl.Put(ctx, a[0].(*verifbase.Item))
	case "add":
		return cl.Add(ctx, a[0].(int32), a[1].(int32))
	case "names":
		r, err := cl.Names(ctx, a[0].(map[string]int64), a[1].(*verifrpc.Choice))
		sort.Strings(r)
		return r, err
	case "echo":
		return cl.Echo(ctx, a[0].([]byte))
	case "fire":
		return nil, cl.Fire(ctx, a[0].(string), a[1].(int64))
	}
	return nil, fmt.Errorf("no such method")
}

// expectedValue mirrors the scripted handler of internal/rig (a pure function of the arguments).
func expectedValue(m string, a []interface{}) interface{} {
	switch m {
	case "ping":
		return "pong:" + a[0].(string)
	case "get":
		id := a[0].(int64)
		name := fmt.Sprintf("item-%d", id)
		return &verifbase.Item{ID: id, Name: &name, Kinds: []verifbase.Kind{verifbase.Kind_B}, M: map[string][]int32{"k": {1, 2}}, Blob: []byte{0, 255}, Flag: true}
	case "add":
		return a[0].(int32) + a[1].(int32)
	case "names":
		var ks []string
		for k := range a[0].(map[string]int64) {
			ks = append(ks, k)
		}
		sort.Strings(ks)
		if ks == nil {
			ks = []string{}
		}
		return ks
	case "echo":
		return a[0].([]byte)
	}
	return nil
}

func observe(m string, v interface{}, err error) string {
	if err == nil {
		if v == nil || (reflect.ValueOf(v).Kind() == reflect.Ptr && reflect.ValueOf(v).IsNil()) {
			return "nil"
		}
		return "value"
	}
	var o *verifbase.Oops
	var d *verifrpc.Denied
	var ae thrift.TApplicationException
	switch {
	case errors.As(err, &o):
		if o.Msg != "oops" {
			return "Oops-with-wrong-fields"
		}
		return "Oops"
	case errors.As(err, &d):
		if d.Why != "denied" {
			return "Denied-with-wrong-fields"
		}
		return "Denied"
	case errors.As(err, &ae):
		switch ae.TypeId() {
		case frugal.APPLICATION_EXCEPTION_INTERNAL_ERROR:
			return "TApplicationException:INTERNAL_ERROR"
		case frugal.APPLICATION_EXCEPTION_INTERNAL_ERROR + 37:
			return "TApplicationException:handler-type"
		}
		return fmt.Sprintf("TApplicationException:%d", ae.TypeId())
	}
	var te thrift.TTransportException
	if errors.As(err, &te) {
		return "transport-error"
	}
	return "error:" + err.Error()
}

func main() {
	in := flag.String("in", "", "rpc_cases.json")
	out := flag.String("out", "results.json", "")
	kinds := flag.String("transports", "mem,tcp,http,nats", "")
	protos := flag.String("protocols", "binary,compact,json", "")
	stride := flag.Int("stride", 1, "")
	offset := flag.Int("offset", 0, "")
	flag.Parse()
	logrus.SetOutput(io.Discard)
	logrus.SetLevel(logrus.PanicLevel)
	// watchdog of the driver itself: a whole run takes seconds; if it is still going after 5 minutes say where it is and
	// give up as a machinery error (exit 2), never as a verdict
	go func() {
		time.Sleep(5 * time.Minute)
		buf := make([]byte, 1<<20)
		fmt.Fprintf(os.Stderr, "rpc driver watchdog: still running after 5 minutes (calls so far %d, per combination %v)\n%s\n", res.Calls, res.PerCombo, buf[:runtime.Stack(buf, true)])
		os.Exit(2)
	}()
	raw, err := os.ReadFile(*in)
	if err != nil {
		fmt.Fprintln(os.Stderr, err)
		os.Exit(2)
	}
	var cases [][]One
	if err := json.Unmarshal(raw, &cases); err != nil {
		fmt.Fprintln(os.Stderr, err)
		os.Exit(2)
	}
	ci := 0
	for _, kind := range strings.Split(*kinds, ",") {
		for _, proto := range strings.Split(*protos, ",") {
			ci++
			env, err := rig.Start(kind, proto)
			if err != nil {
				fmt.Fprintln(os.Stderr, err)
				os.Exit(2)
			}
			cl, tr, closeFn, err := env.Client()
			if err != nil {
				fmt.Fprintln(os.Stderr, err)
				os.Exit(2)
			}
			label := kind + "/" + proto
			// the harness's own environment check: one plain call must go through before the cases are run.  If the very
			// first call of a combination does not come back (seen once on a machine other than the one this was built
			// on, cause unknown), the combination is left out and reported in the evidence - a dead harness decides nothing
			{
				pctx := frugal.NewFContext("")
				pctx.SetTimeout(5 * time.Second)
				env.Handler.Script = func(string, int, []interface{}) rig.Outcome { return rig.Outcome{Kind: "return"} }
				t0 := time.Now()
				if _, perr := cl.Ping(pctx, "probe"); perr != nil {
					res.Unusable = append(res.Unusable, fmt.Sprintf("%s: probe call failed after %v: %v\n%s", label, time.Since(t0).Round(time.Millisecond), perr, driverStacks()))
					closeFn()
					env.Stop()
					continue
				}
			}
			comboStart := time.Now()
			vioAtStart := len(res.Violations)
			// a second client of the same server whose transport accepts at most 8 bytes of reply (Rpc!CallOverLimit)
			var clLimited *verifrpc.FStoreClient
			if kind == "http" {
				trL := frugal.NewFHTTPTransportBuilder(&http.Client{}, env.Addr).WithResponseSizeLimit(8).Build()
				trL.Open()
				clLimited = verifrpc.NewFStoreClient(frugal.NewFServiceProvider(trL, env.PF))
			}
			for i, seq := range cases {
				if time.Since(comboStart) > 90*time.Second {
					// a combination that crawls is a sick harness, not evidence: what it reported so far is set aside too
					dropped := res.Violations[vioAtStart:]
					first := ""
					if len(dropped) > 0 {
						first = " first: " + dropped[0].Text
					}
					res.Violations = res.Violations[:vioAtStart]
					res.Unusable = append(res.Unusable, fmt.Sprintf("%s: abandoned after %v and %d calls (a combination takes about a second); %d observation(s) of this combination set aside.%s\n%s", label, time.Since(comboStart).Round(time.Second), res.PerCombo[label], len(dropped), first, driverStacks()))
					break
				}
				// single calls always; call pairs rotate over the combinations (those that start with a fault always run)
				if len(seq) > 1 && seq[0].Fault == "none" && (i+*offset+ci)%*stride != 0 {
					continue
				}
				if seq[0].Fault == "reply-over-limit" && kind != "http" {
					continue // only the HTTP transport lets a caller state a reply limit
				}
				for _, c := range seq {
					if c.Fault == "drop-after-handler" {
						if kind != "http" {
							continue // the harness can cut a connection between handler and response only on its own HTTP server
						}
						atomic.StoreInt32(&env.DropAfterHandler, 1)
					}
					a := argsFor(c.M, c.Args)
					outcome := c.O
					env.Handler.Script = func(string, int, []interface{}) rig.Outcome { return rig.Outcome{Kind: outcome} }
					before := len(env.Handler.Snapshot())
					framesBefore := replies(tr)
					ctx := frugal.NewFContext("")
					ctx.SetTimeout(3 * time.Second)
					theClient := cl
					if c.Fault == "reply-over-limit" {
						theClient = clLimited
					}
					v, cerr := call(theClient, ctx, c.M, a)
					rp := map[string]interface{}{"transport": kind, "protocol": proto, "sequence": seq, "failing_call": c}
					// the handler runs exactly once (a oneway call may still be on its way)
					var calls []rig.Call
					for dl := time.Now().Add(1500 * time.Millisecond); ; time.Sleep(200 * time.Microsecond) {
						calls = env.Handler.Snapshot()
						if len(calls) > before || time.Now().After(dl) {
							break
						}
					}
					if c.Kind == "oneway" || c.Kind == "onewayfail" {
						time.Sleep(300 * time.Microsecond)
						calls = env.Handler.Snapshot()
					}
					if len(calls) != before+1 {
						violate("handler-count/"+c.M+"/"+label, fmt.Sprintf("%s: %s(%s args, handler %s): the handler ran %d times", label, c.M, c.Args, c.O, len(calls)-before), rp)
					} else {
						hc := calls[len(calls)-1]
						want := a
						if c.M == "get" {
							want = []interface{}{a[0].(int64)}
						}
						if hc.Method != c.M || !reflect.DeepEqual(norm(hc.Args), norm(want)) {
							violate("handler-arguments/"+c.M+"/"+label, fmt.Sprintf("%s: %s(%s args): the handler was invoked as %s with %s, the caller passed %s", label, c.M, c.Args, hc.Method, short(hc.Args), short(want)), rp)
						}
					}
					got := observe(c.M, v, cerr)
					if got != c.Observes {
						violate("caller-observes/"+c.M+"/"+c.O+"/"+label, fmt.Sprintf("%s: %s(%s args) with handler outcome %s: the caller observed %s (%v), the specification says %s", label, c.M, c.Args, c.O, got, cerr, c.Observes), rp)
					} else if got == "value" {
						if exp := expectedValue(c.M, a); !reflect.DeepEqual(norm(v), norm(exp)) {
							violate("caller-value/"+c.M+"/"+label, fmt.Sprintf("%s: %s(%s args): the caller received %s, the handler returned %s", label, c.M, c.Args, short(v), short(exp)), rp)
						}
					}
					if kind == "mem" {
						if d := replies(tr) - framesBefore; d != c.Frames {
							violate("reply-frames/"+c.M+"/"+c.O+"/"+label, fmt.Sprintf("%s: %s with handler outcome %s produced %d reply frame(s), the specification says %d", label, c.M, c.O, d, c.Frames), rp)
						}
					}
					res.Calls++
					res.PerCombo[label]++
				}
				res.Runs++
			}
			if len(res.Samples) < 2 {
				res.Samples = append(res.Samples, map[string]interface{}{"transport": kind, "protocol": proto, "sequence": cases[len(cases)-1]})
			}
			closeFn()
			env.Stop()
		}
	}
	b, _ := json.MarshalIndent(res, "", " ")
	os.WriteFile(*out, b, 0o644)
}

type replyCounter interface{ ReplyCount() int }

func replies(tr frugal.FTransport) int {
	if r, ok := tr.(replyCounter); ok {
		return r.ReplyCount()
	}
	return 0
}

func short(v interface{}) string {
	b, _ := json.Marshal(v)
	if len(b) > 300 {
		return string(b[:300]) + "..."
	}
	return string(b)
}
