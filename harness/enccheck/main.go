// enccheck: C02 driver.  Runs the Encoding.tla cases of several programs against the Go code the compiler under test generated for those
// programs.  The driver knows nothing about any schema: values are put into / compared with the generated types through reflection (fields are
// found by the id in their thrift tag), the bytes the generated Write produced are read back by a schema-less reader, and the bytes handed
// to the generated Read come from a schema-less writer - both driven only by the abstract trees the specification printed.
package main

import (
	"bytes"
	"context"
	"encoding/base64"
	"encoding/json"
	"flag"
	"fmt"
	"os"
	"reflect"
	"sort"
	"strconv"
	"strings"

	"github.com/apache/thrift/lib/go/thrift"
)

// registry[prog][struct name] constructs the generated type; filled by reg_gen.go, which the check writes next to this file.
var registry = map[string]map[string]func() thrift.TStruct{}

type A = map[string]interface{}

type Case struct {
	Prog   string `json:"prog"`
	Op     string `json:"op"`
	S      string `json:"s"`
	Kind   string `json:"kind"`
	How    string `json:"how"`
	V      A      `json:"v"`
	Wire   A      `json:"wire"`
	Expect A      `json:"expect"`
	Eqd    bool   `json:"eqd"`
}

type Violation struct {
	Key    string      `json:"key"`
	Text   string      `json:"text"`
	Replay interface{} `json:"replay"`
}

const uniString = "héllo ☃ \"q\"\\ \n\t<&>"

var uniBytes = []byte{0x00, 0xff, 0x0a, 0x22, 0x80, 0x5c}

func strOf(tok string) string {
	if tok == "@u" {
		return uniString
	}
	return tok
}
func bytesOf(tok string) []byte {
	if tok == "@u" {
		return uniBytes
	}
	return []byte(tok)
}

var protos = []string{"binary", "compact", "json"}

func newProto(name string, buf *thrift.TMemoryBuffer) thrift.TProtocol {
	switch name {
	case "binary":
		return thrift.NewTBinaryProtocolConf(buf, &thrift.TConfiguration{})
	case "compact":
		return thrift.NewTCompactProtocolConf(buf, &thrift.TConfiguration{})
	default:
		return thrift.NewTJSONProtocol(buf)
	}
}

func num(x interface{}) int64 {
	switch v := x.(type) {
	case float64:
		return int64(v)
	case json.Number:
		n, _ := v.Int64()
		return n
	}
	panic(fmt.Sprintf("not a number: %v", x))
}

func seq(x interface{}) []interface{} {
	if x == nil {
		return nil
	}
	return x.([]interface{})
}

// ---------------------------------------------------------------------------------------------------------------- values into Go types

// fieldByID finds the Go field of the IDL field with the given id: by the id in the thrift tag, or - code generated with the
// `slim` option has no tags - by position (idx is the position of the field in the declaration, which is the order of the Go fields).
func fieldByID(v reflect.Value, id int64, idx int) (reflect.Value, bool) {
	t := v.Type()
	tagged := false
	for i := 0; i < t.NumField(); i++ {
		tg := t.Field(i).Tag.Get("thrift")
		if tg != "" {
			tagged = true
		}
		tag := strings.Split(tg, ",")
		if len(tag) >= 2 && tag[1] == strconv.FormatInt(id, 10) {
			return v.Field(i), true
		}
	}
	if !tagged && idx < t.NumField() {
		return v.Field(idx), true
	}
	return reflect.Value{}, false
}

func fill(prog string, v reflect.Value, a A) error {
	k := a["k"].(string)
	if k == "unset" {
		return nil
	}
	switch v.Kind() {
	case reflect.Ptr:
		if k == "struct" {
			ctor, ok := registry[prog][a["name"].(string)]
			if !ok {
				return fmt.Errorf("MACHINERY: no constructor for %s/%s", prog, a["name"])
			}
			nv := reflect.ValueOf(ctor())
			if !nv.Type().AssignableTo(v.Type()) {
				return fmt.Errorf("MACHINERY: constructor of %s gives %s, field wants %s", a["name"], nv.Type(), v.Type())
			}
			v.Set(nv)
			return fill(prog, v.Elem(), a)
		}
		nv := reflect.New(v.Type().Elem())
		if err := fill(prog, nv.Elem(), a); err != nil {
			return err
		}
		v.Set(nv)
		return nil
	case reflect.Struct:
		for idx, f := range seq(a["fields"]) {
			fa := f.(map[string]interface{})
			fv, ok := fieldByID(v, num(fa["id"]), idx)
			if !ok {
				return fmt.Errorf("generated type %s has no field with id %d", v.Type(), num(fa["id"]))
			}
			if err := fill(prog, fv, fa["v"].(map[string]interface{})); err != nil {
				return err
			}
		}
		return nil
	case reflect.Slice:
		if v.Type().Elem().Kind() == reflect.Uint8 && k != "list" {
			v.SetBytes(append([]byte{}, bytesOf(a["s"].(string))...))
			return nil
		}
		items := seq(a["items"])
		s := reflect.MakeSlice(v.Type(), len(items), len(items))
		for i, it := range items {
			if err := fill(prog, s.Index(i), it.(map[string]interface{})); err != nil {
				return err
			}
		}
		v.Set(s)
		return nil
	case reflect.Map:
		m := reflect.MakeMap(v.Type())
		if k == "list" { // a set
			for _, it := range seq(a["items"]) {
				key := reflect.New(v.Type().Key()).Elem()
				if err := fill(prog, key, it.(map[string]interface{})); err != nil {
					return err
				}
				m.SetMapIndex(key, reflect.ValueOf(true))
			}
		} else {
			for _, p := range seq(a["pairs"]) {
				pr := p.([]interface{})
				key := reflect.New(v.Type().Key()).Elem()
				val := reflect.New(v.Type().Elem()).Elem()
				if err := fill(prog, key, pr[0].(map[string]interface{})); err != nil {
					return err
				}
				if err := fill(prog, val, pr[1].(map[string]interface{})); err != nil {
					return err
				}
				m.SetMapIndex(key, val)
			}
		}
		v.Set(m)
		return nil
	case reflect.Bool:
		v.SetBool(a["b"].(bool))
		return nil
	case reflect.Int8, reflect.Int16, reflect.Int32, reflect.Int64, reflect.Int:
		if k == "big" {
			n, _ := strconv.ParseInt(a["s"].(string), 10, 64)
			v.SetInt(n)
		} else {
			v.SetInt(num(a["i"]))
		}
		return nil
	case reflect.Float64:
		if k == "int" { // a double written as an integer literal
			v.SetFloat(float64(num(a["i"])))
			return nil
		}
		f, err := strconv.ParseFloat(a["s"].(string), 64)
		if err != nil {
			return fmt.Errorf("MACHINERY: %v", err)
		}
		v.SetFloat(f)
		return nil
	case reflect.String:
		v.SetString(strOf(a["s"].(string)))
		return nil
	}
	return fmt.Errorf("MACHINERY: cannot fill %s with %v", v.Type(), a)
}

// match compares what the generated Read produced with the value Decode demands.
func match(exp A, v reflect.Value, path string) error {
	k := exp["k"].(string)
	if k == "unset" {
		switch v.Kind() {
		case reflect.Ptr, reflect.Slice, reflect.Map:
			if v.IsNil() {
				return nil
			}
		}
		return fmt.Errorf("%s: must be unset, is %v", path, show(v))
	}
	if k == "dflt" { // not set: nil, or the default value where Go has no other way to say so
		switch v.Kind() {
		case reflect.Ptr, reflect.Slice, reflect.Map:
			if v.IsNil() {
				return nil
			}
		}
		return match(exp["v"].(map[string]interface{}), v, path)
	}
	if v.Kind() == reflect.Ptr {
		if v.IsNil() {
			return fmt.Errorf("%s: is unset, must be %v", path, exp)
		}
		return match(exp, v.Elem(), path)
	}
	switch k {
	case "int", "big":
		var want int64
		if k == "big" {
			want, _ = strconv.ParseInt(exp["s"].(string), 10, 64)
		} else {
			want = num(exp["i"])
		}
		switch v.Kind() {
		case reflect.Int8, reflect.Int16, reflect.Int32, reflect.Int64, reflect.Int:
			if v.Int() != want {
				return fmt.Errorf("%s: is %d, must be %d", path, v.Int(), want)
			}
			return nil
		case reflect.Float64:
			if v.Float() != float64(want) {
				return fmt.Errorf("%s: is %v, must be %d", path, v.Float(), want)
			}
			return nil
		}
	case "bool":
		if v.Kind() == reflect.Bool {
			if v.Bool() != exp["b"].(bool) {
				return fmt.Errorf("%s: is %v, must be %v", path, v.Bool(), exp["b"])
			}
			return nil
		}
	case "double":
		if v.Kind() == reflect.Float64 {
			f, _ := strconv.ParseFloat(exp["s"].(string), 64)
			if v.Float() != f {
				return fmt.Errorf("%s: is %v, must be %v", path, v.Float(), f)
			}
			return nil
		}
	case "str", "bin":
		if v.Kind() == reflect.String {
			if v.String() != strOf(exp["s"].(string)) {
				return fmt.Errorf("%s: is %q, must be %q", path, v.String(), strOf(exp["s"].(string)))
			}
			return nil
		}
		if v.Kind() == reflect.Slice && v.Type().Elem().Kind() == reflect.Uint8 {
			if !bytes.Equal(v.Bytes(), bytesOf(exp["s"].(string))) {
				return fmt.Errorf("%s: is %x, must be %x", path, v.Bytes(), bytesOf(exp["s"].(string)))
			}
			return nil
		}
	case "list":
		items := seq(exp["items"])
		if v.Kind() == reflect.Slice {
			if v.Len() != len(items) {
				return fmt.Errorf("%s: has %d elements, must have %d", path, v.Len(), len(items))
			}
			for i, it := range items {
				if err := match(it.(map[string]interface{}), v.Index(i), fmt.Sprintf("%s[%d]", path, i)); err != nil {
					return err
				}
			}
			return nil
		}
		if v.Kind() == reflect.Map { // a set
			if v.Len() != len(items) {
				return fmt.Errorf("%s: set has %d elements, must have %d", path, v.Len(), len(items))
			}
			used := map[int]bool{}
			for _, key := range v.MapKeys() {
				found := false
				for i, it := range items {
					if !used[i] && match(it.(map[string]interface{}), key, path) == nil {
						used[i], found = true, true
						break
					}
				}
				if !found {
					return fmt.Errorf("%s: set element %v is not expected", path, show(key))
				}
			}
			return nil
		}
	case "map":
		pairs := seq(exp["pairs"])
		if v.Kind() == reflect.Map {
			if v.Len() != len(pairs) {
				return fmt.Errorf("%s: map has %d entries, must have %d", path, v.Len(), len(pairs))
			}
			used := map[int]bool{}
			for _, key := range v.MapKeys() {
				found := false
				for i, p := range pairs {
					pr := p.([]interface{})
					if !used[i] && match(pr[0].(map[string]interface{}), key, path) == nil {
						if err := match(pr[1].(map[string]interface{}), v.MapIndex(key), fmt.Sprintf("%s[%v]", path, show(key))); err != nil {
							return err
						}
						used[i], found = true, true
						break
					}
				}
				if !found {
					return fmt.Errorf("%s: map key %v is not expected", path, show(key))
				}
			}
			return nil
		}
	case "struct":
		if v.Kind() == reflect.Struct {
			for idx, f := range seq(exp["fields"]) {
				fa := f.(map[string]interface{})
				fv, ok := fieldByID(v, num(fa["id"]), idx)
				if !ok {
					return fmt.Errorf("%s: generated type %s has no field with id %d", path, v.Type(), num(fa["id"]))
				}
				if err := match(fa["v"].(map[string]interface{}), fv, fmt.Sprintf("%s.%d", path, num(fa["id"]))); err != nil {
					return err
				}
			}
			return nil
		}
	}
	return fmt.Errorf("%s: a %s cannot hold %v", path, v.Type(), exp)
}

func show(v reflect.Value) string {
	if v.Kind() == reflect.Ptr && !v.IsNil() {
		return fmt.Sprintf("&%+v", v.Elem().Interface())
	}
	return fmt.Sprintf("%+v", v.Interface())
}

// ---------------------------------------------------------------------------------------------------------------- schema-less wire I/O

var bg = context.Background()

// readTree reads whatever is on the wire; the result has the shape of the specification's wire trees.
func readTree(p thrift.TProtocol, wt thrift.TType, isJSON bool) (A, error) {
	r := A{"wt": float64(wt)}
	switch wt {
	case thrift.BOOL:
		b, err := p.ReadBool(bg)
		r["v"] = A{"k": "bool", "b": b}
		return r, err
	case thrift.BYTE:
		b, err := p.ReadByte(bg)
		r["v"] = A{"k": "int", "i": float64(b)}
		return r, err
	case thrift.I16:
		b, err := p.ReadI16(bg)
		r["v"] = A{"k": "int", "i": float64(b)}
		return r, err
	case thrift.I32:
		b, err := p.ReadI32(bg)
		r["v"] = A{"k": "int", "i": float64(b)}
		return r, err
	case thrift.I64:
		b, err := p.ReadI64(bg)
		r["v"] = A{"k": "i64", "n": b}
		return r, err
	case thrift.DOUBLE:
		b, err := p.ReadDouble(bg)
		r["v"] = A{"k": "f64", "f": b}
		return r, err
	case thrift.STRING:
		if isJSON {
			s, err := p.ReadString(bg)
			r["v"] = A{"k": "raw", "raw": []byte(s), "json": true}
			return r, err
		}
		b, err := p.ReadBinary(bg)
		r["v"] = A{"k": "raw", "raw": b}
		return r, err
	case thrift.STRUCT:
		if _, err := p.ReadStructBegin(bg); err != nil {
			return r, err
		}
		var fields []interface{}
		for {
			_, ft, id, err := p.ReadFieldBegin(bg)
			if err != nil {
				return r, err
			}
			if ft == thrift.STOP {
				break
			}
			f, err := readTree(p, ft, isJSON)
			if err != nil {
				return r, err
			}
			fields = append(fields, A{"id": float64(id), "f": f})
			if err := p.ReadFieldEnd(bg); err != nil {
				return r, err
			}
		}
		r["fields"] = fields
		return r, p.ReadStructEnd(bg)
	case thrift.LIST, thrift.SET:
		var et thrift.TType
		var n int
		var err error
		if wt == thrift.LIST {
			et, n, err = p.ReadListBegin(bg)
		} else {
			et, n, err = p.ReadSetBegin(bg)
		}
		if err != nil {
			return r, err
		}
		r["et"] = float64(et)
		var items []interface{}
		for i := 0; i < n; i++ {
			it, err := readTree(p, et, isJSON)
			if err != nil {
				return r, err
			}
			items = append(items, it)
		}
		r["items"] = items
		if wt == thrift.LIST {
			return r, p.ReadListEnd(bg)
		}
		return r, p.ReadSetEnd(bg)
	case thrift.MAP:
		kt, vt, n, err := p.ReadMapBegin(bg)
		if err != nil {
			return r, err
		}
		r["kt"], r["vt"] = float64(kt), float64(vt)
		var pairs []interface{}
		for i := 0; i < n; i++ {
			k, err := readTree(p, kt, isJSON)
			if err != nil {
				return r, err
			}
			v, err := readTree(p, vt, isJSON)
			if err != nil {
				return r, err
			}
			pairs = append(pairs, []interface{}{k, v})
		}
		r["pairs"] = pairs
		return r, p.ReadMapEnd(bg)
	}
	return r, fmt.Errorf("unknown wire type %d", wt)
}

func scalarEq(exp A, act A) error {
	k := exp["k"].(string)
	switch k {
	case "int":
		switch act["k"] {
		case "int":
			if num(act["i"]) == num(exp["i"]) {
				return nil
			}
		case "i64":
			if act["n"].(int64) == num(exp["i"]) {
				return nil
			}
		case "f64":
			if act["f"].(float64) == float64(num(exp["i"])) {
				return nil
			}
		}
	case "big":
		n, _ := strconv.ParseInt(exp["s"].(string), 10, 64)
		if act["k"] == "i64" && act["n"].(int64) == n {
			return nil
		}
	case "bool":
		if act["k"] == "bool" && act["b"] == exp["b"] {
			return nil
		}
	case "double":
		f, _ := strconv.ParseFloat(exp["s"].(string), 64)
		if act["k"] == "f64" && act["f"].(float64) == f {
			return nil
		}
	case "str", "bin":
		if act["k"] == "raw" {
			raw := act["raw"].([]byte)
			if k == "bin" {
				if act["json"] == true {
					dec, err := base64.StdEncoding.DecodeString(string(raw))
					if err != nil {
						dec, err = base64.RawStdEncoding.DecodeString(string(raw))
					}
					if err == nil && bytes.Equal(dec, bytesOf(exp["s"].(string))) {
						return nil
					}
				} else if bytes.Equal(raw, bytesOf(exp["s"].(string))) {
					return nil
				}
			} else if string(raw) == strOf(exp["s"].(string)) {
				return nil
			}
			return fmt.Errorf("wire has %q, must have %q", raw, exp["s"])
		}
	}
	return fmt.Errorf("wire has %v, must have %v", act, exp)
}

// matchWire compares the tree read back from the generated Write with the tree Encode demands (field, set and map order are free).
func matchWire(exp A, act A, path string) error {
	if num(exp["wt"]) != num(act["wt"]) {
		return fmt.Errorf("%s: wire type %d, must be %d", path, num(act["wt"]), num(exp["wt"]))
	}
	switch thrift.TType(num(exp["wt"])) {
	case thrift.STRUCT:
		ef, af := seq(exp["fields"]), seq(act["fields"])
		seen := map[int64]bool{}
		for _, a := range af {
			id := num(a.(A)["id"])
			if seen[id] {
				return fmt.Errorf("%s: field %d written twice", path, id)
			}
			seen[id] = true
		}
		for _, e := range ef {
			id := num(e.(map[string]interface{})["id"])
			var hit A
			for _, a := range af {
				if num(a.(A)["id"]) == id {
					hit = a.(A)
				}
			}
			if hit == nil {
				return fmt.Errorf("%s: field %d is missing on the wire", path, id)
			}
			if err := matchWire(e.(map[string]interface{})["f"].(map[string]interface{}), hit["f"].(A), fmt.Sprintf("%s.%d", path, id)); err != nil {
				return err
			}
			delete(seen, id)
		}
		if len(seen) > 0 {
			var extra []int
			for id := range seen {
				extra = append(extra, int(id))
			}
			sort.Ints(extra)
			return fmt.Errorf("%s: field(s) %v are on the wire and must not be", path, extra)
		}
		return nil
	case thrift.LIST, thrift.SET:
		ei, ai := seq(exp["items"]), seq(act["items"])
		if len(ei) != len(ai) {
			return fmt.Errorf("%s: %d elements on the wire, must be %d", path, len(ai), len(ei))
		}
		if len(ei) > 0 || num(act["et"]) != 0 {
			if num(exp["et"]) != num(act["et"]) {
				return fmt.Errorf("%s: element wire type %d, must be %d", path, num(act["et"]), num(exp["et"]))
			}
		}
		if thrift.TType(num(exp["wt"])) == thrift.LIST {
			for i := range ei {
				if err := matchWire(ei[i].(map[string]interface{}), ai[i].(A), fmt.Sprintf("%s[%d]", path, i)); err != nil {
					return err
				}
			}
			return nil
		}
		used := map[int]bool{}
		for _, e := range ei {
			found := false
			for i, a := range ai {
				if !used[i] && matchWire(e.(map[string]interface{}), a.(A), path) == nil {
					used[i], found = true, true
					break
				}
			}
			if !found {
				return fmt.Errorf("%s: set element %v is missing on the wire", path, e)
			}
		}
		return nil
	case thrift.MAP:
		ep, ap := seq(exp["pairs"]), seq(act["pairs"])
		if len(ep) != len(ap) {
			return fmt.Errorf("%s: %d entries on the wire, must be %d", path, len(ap), len(ep))
		}
		if len(ep) > 0 {
			if num(exp["kt"]) != num(act["kt"]) || num(exp["vt"]) != num(act["vt"]) {
				return fmt.Errorf("%s: key/value wire types %d/%d, must be %d/%d", path, num(act["kt"]), num(act["vt"]), num(exp["kt"]), num(exp["vt"]))
			}
		}
		used := map[int]bool{}
		for _, e := range ep {
			pr := e.([]interface{})
			found := false
			for i, a := range ap {
				apr := a.([]interface{})
				if !used[i] && matchWire(pr[0].(map[string]interface{}), apr[0].(A), path) == nil {
					if err := matchWire(pr[1].(map[string]interface{}), apr[1].(A), path+"[value]"); err != nil {
						return err
					}
					used[i], found = true, true
					break
				}
			}
			if !found {
				return fmt.Errorf("%s: map key %v is missing on the wire", path, pr[0])
			}
		}
		return nil
	}
	if err := scalarEq(exp["v"].(map[string]interface{}), act["v"].(A)); err != nil {
		return fmt.Errorf("%s: %v", path, err)
	}
	return nil
}

// writeTree is the reference writer: it puts a wire tree on the wire, field by field, in the order given.
func writeTree(p thrift.TProtocol, w A) error {
	wt := thrift.TType(num(w["wt"]))
	switch wt {
	case thrift.STRUCT:
		if err := p.WriteStructBegin(bg, "s"); err != nil {
			return err
		}
		for _, f := range seq(w["fields"]) {
			fa := f.(map[string]interface{})
			sub := fa["f"].(map[string]interface{})
			if err := p.WriteFieldBegin(bg, "f", thrift.TType(num(sub["wt"])), int16(num(fa["id"]))); err != nil {
				return err
			}
			if err := writeTree(p, sub); err != nil {
				return err
			}
			if err := p.WriteFieldEnd(bg); err != nil {
				return err
			}
		}
		if err := p.WriteFieldStop(bg); err != nil {
			return err
		}
		return p.WriteStructEnd(bg)
	case thrift.LIST, thrift.SET:
		items := seq(w["items"])
		var err error
		if wt == thrift.LIST {
			err = p.WriteListBegin(bg, thrift.TType(num(w["et"])), len(items))
		} else {
			err = p.WriteSetBegin(bg, thrift.TType(num(w["et"])), len(items))
		}
		if err != nil {
			return err
		}
		for _, it := range items {
			if err := writeTree(p, it.(map[string]interface{})); err != nil {
				return err
			}
		}
		if wt == thrift.LIST {
			return p.WriteListEnd(bg)
		}
		return p.WriteSetEnd(bg)
	case thrift.MAP:
		pairs := seq(w["pairs"])
		if err := p.WriteMapBegin(bg, thrift.TType(num(w["kt"])), thrift.TType(num(w["vt"])), len(pairs)); err != nil {
			return err
		}
		for _, pr := range pairs {
			kv := pr.([]interface{})
			if err := writeTree(p, kv[0].(map[string]interface{})); err != nil {
				return err
			}
			if err := writeTree(p, kv[1].(map[string]interface{})); err != nil {
				return err
			}
		}
		return p.WriteMapEnd(bg)
	}
	v := w["v"].(map[string]interface{})
	var n int64
	if v["k"] == "big" {
		n, _ = strconv.ParseInt(v["s"].(string), 10, 64)
	} else if v["k"] == "int" {
		n = num(v["i"])
	}
	switch wt {
	case thrift.BOOL:
		return p.WriteBool(bg, v["b"].(bool))
	case thrift.BYTE:
		return p.WriteByte(bg, int8(n))
	case thrift.I16:
		return p.WriteI16(bg, int16(n))
	case thrift.I32:
		return p.WriteI32(bg, int32(n))
	case thrift.I64:
		return p.WriteI64(bg, n)
	case thrift.DOUBLE:
		if v["k"] == "int" {
			return p.WriteDouble(bg, float64(n))
		}
		f, _ := strconv.ParseFloat(v["s"].(string), 64)
		return p.WriteDouble(bg, f)
	case thrift.STRING:
		if v["k"] == "bin" {
			return p.WriteBinary(bg, bytesOf(v["s"].(string)))
		}
		return p.WriteString(bg, strOf(v["s"].(string)))
	}
	return fmt.Errorf("MACHINERY: cannot write wire type %d", wt)
}

// ---------------------------------------------------------------------------------------------------------------- the cases

func runCase(c Case, proto string) (key, text string) {
	defer func() {
		if r := recover(); r != nil {
			msg := fmt.Sprint(r)
			if strings.Contains(msg, "MACHINERY") || strings.Contains(msg, "interface conversion") {
				key, text = "MACHINERY", msg
				return
			}
			key, text = "generated-code-panics/"+c.Op, fmt.Sprintf("%s of %s (%s) panicked: %v", c.Op, c.S, proto, r)
		}
	}()
	ctor, ok := registry[c.Prog][c.S]
	if !ok {
		return "MACHINERY", fmt.Sprintf("no generated type registered for %s/%s", c.Prog, c.S)
	}
	isJSON := proto == "json"
	switch c.Op {
	case "write", "write-must-fail":
		v := ctor()
		if err := fill(c.Prog, reflect.ValueOf(v).Elem(), c.V); err != nil {
			if strings.Contains(err.Error(), "MACHINERY") {
				return "MACHINERY", err.Error()
			}
			return "generated-type-shape/" + c.Kind, fmt.Sprintf("%s: %v", c.S, err)
		}
		buf := thrift.NewTMemoryBuffer()
		p := newProto(proto, buf)
		err := v.Write(bg, p)
		if err == nil {
			err = p.Flush(bg)
		}
		if c.Op == "write-must-fail" {
			if err == nil {
				return "union-written-with-wrong-member-count", fmt.Sprintf("%s: Write accepted a union value with no member or two members set (%s)", c.S, proto)
			}
			return "", ""
		}
		if err != nil {
			if c.Eqd {
				return "union-member-equal-to-its-default/write-fails", fmt.Sprintf("%s: Write failed for a union whose set member has the value of that member's default (%s): %v", c.S, proto, err)
			}
			return "write-failed/" + c.Kind, fmt.Sprintf("%s: Write failed for a legal value (%s): %v", c.S, proto, err)
		}
		raw := append([]byte{}, buf.Bytes()...)
		rb := thrift.NewTMemoryBuffer()
		rb.Write(raw)
		tree, err := readTree(newProto(proto, rb), thrift.STRUCT, isJSON)
		if err != nil {
			return "written-bytes-unreadable/" + c.Kind, fmt.Sprintf("%s: a schema-less %s reader cannot read what Write produced: %v (%x)", c.S, proto, err, raw)
		}
		if rb.Len() != 0 {
			return "written-bytes-trailing/" + c.Kind, fmt.Sprintf("%s: %d bytes follow the struct (%s)", c.S, rb.Len(), proto)
		}
		if err := matchWire(c.Wire, tree, c.S); err != nil {
			return "wrong-encoding/" + c.Kind, fmt.Sprintf("%s (%s): %v", c.S, proto, err)
		}
		return "", ""
	case "read":
		buf := thrift.NewTMemoryBuffer()
		p := newProto(proto, buf)
		if err := writeTree(p, c.Wire); err != nil {
			return "MACHINERY", "reference writer: " + err.Error()
		}
		p.Flush(bg)
		raw := append([]byte{}, buf.Bytes()...)
		rb := thrift.NewTMemoryBuffer()
		rb.Write(raw)
		v := ctor()
		err := v.Read(bg, newProto(proto, rb))
		if c.Expect["k"] == "reject" {
			if err == nil {
				return "missing-required-accepted/" + c.How, fmt.Sprintf("%s: Read accepted an encoding without a required field (%s, %s)", c.S, c.How, proto)
			}
			return "", ""
		}
		if err != nil {
			if c.Eqd {
				return "union-member-equal-to-its-default/read-fails", fmt.Sprintf("%s: Read failed on a union whose member carries the value of that member's default (%s, %s): %v", c.S, c.How, proto, err)
			}
			return "read-failed/" + c.How, fmt.Sprintf("%s: Read failed on a conforming encoding (%s, %s): %v", c.S, c.How, proto, err)
		}
		if rb.Len() != 0 {
			return "read-leaves-bytes/" + c.How, fmt.Sprintf("%s: Read left %d bytes unread (%s, %s)", c.S, rb.Len(), c.How, proto)
		}
		if err := match(c.Expect, reflect.ValueOf(v).Elem(), c.S); err != nil {
			return "wrong-decoding/" + c.How, fmt.Sprintf("%s (%s, %s): %v", c.S, c.How, proto, err)
		}
		return "", ""
	}
	return "MACHINERY", "unknown op " + c.Op
}

func main() {
	in := flag.String("in", "", "cases (ndjson)")
	out := flag.String("out", "", "result json")
	flag.Parse()
	data, err := os.ReadFile(*in)
	if err != nil {
		fmt.Println("MACHINERY:", err)
		os.Exit(2)
	}
	var vio []Violation
	perKey := map[string]int{}
	runs := 0
	perOp := map[string]int{}
	for _, line := range bytes.Split(data, []byte("\n")) {
		if len(bytes.TrimSpace(line)) == 0 {
			continue
		}
		var c Case
		if err := json.Unmarshal(line, &c); err != nil {
			fmt.Println("MACHINERY: bad case:", err)
			os.Exit(2)
		}
		for _, proto := range protos {
			runs++
			perOp[c.Op+"/"+proto]++
			key, text := runCase(c, proto)
			if key == "MACHINERY" {
				fmt.Println("MACHINERY:", text, string(line))
				os.Exit(2)
			}
			if key != "" {
				perKey[key]++
				if perKey[key] <= 3 {
					vio = append(vio, Violation{Key: key, Text: text, Replay: map[string]interface{}{"case": json.RawMessage(line), "protocol": proto}})
				}
			}
		}
	}
	res := map[string]interface{}{"runs": runs, "per_op": perOp, "violations": vio, "violation_counts": perKey}
	b, _ := json.MarshalIndent(res, "", " ")
	os.WriteFile(*out, b, 0o644)
}
