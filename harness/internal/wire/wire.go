// Package wire is the harness's own, independent implementation of the frugal
// v0 header layout (documentation/protocol.md) used to build and parse frames.
package wire

import (
	"encoding/binary"
	"errors"
	"fmt"
	"strconv"
)

type Pair struct{ Name, Value string }

func b4(n int) []byte { b := make([]byte, 4); binary.BigEndian.PutUint32(b, uint32(n)); return b }

// Headers marshals pairs in the given order: version 0, total size, pairs.
func Headers(pairs []Pair) []byte {
	var body []byte
	for _, p := range pairs {
		body = append(body, b4(len(p.Name))...)
		body = append(body, p.Name...)
		body = append(body, b4(len(p.Value))...)
		body = append(body, p.Value...)
	}
	out := append([]byte{0}, b4(len(body))...)
	return append(out, body...)
}

// Frame prepends the 4-byte frame size.
func Frame(unframed []byte) []byte { return append(b4(len(unframed)), unframed...) }

// OpFrame is a framed message whose only header is _opid, followed by payload.
func OpFrame(opid uint64, payload []byte) []byte {
	return Frame(append(Headers([]Pair{{"_opid", strconv.FormatUint(opid, 10)}}), payload...))
}

// OpFrameDecoy is a framed message for op id opid whose first header is an ordinary user header "a" whose VALUE happens to
// contain the marshalled pair (_opid, decoy): only the frame's own _opid header says whom it is for.
func OpFrameDecoy(opid, decoy uint64, payload []byte) []byte {
	inner := Headers([]Pair{{"_opid", strconv.FormatUint(decoy, 10)}})[5:]
	return Frame(append(Headers([]Pair{{"a", "x" + string(inner) + "y"}, {"_opid", strconv.FormatUint(opid, 10)}}), payload...))
}

// Parse reads an unframed message: returns pairs in wire order and the payload.
func Parse(b []byte) ([]Pair, []byte, error) {
	if len(b) < 5 {
		return nil, nil, errors.New("short")
	}
	if b[0] != 0 {
		return nil, nil, fmt.Errorf("version %d", b[0])
	}
	size := int(int32(binary.BigEndian.Uint32(b[1:5])))
	if size < 0 || 5+size > len(b) {
		return nil, nil, fmt.Errorf("size %d", size)
	}
	hb := b[5 : 5+size]
	var pairs []Pair
	for len(hb) > 0 {
		var f [2]string
		for k := 0; k < 2; k++ {
			if len(hb) < 4 {
				return nil, nil, errors.New("short pair")
			}
			n := int(int32(binary.BigEndian.Uint32(hb)))
			hb = hb[4:]
			if n < 0 || n > len(hb) {
				return nil, nil, errors.New("pair size")
			}
			f[k] = string(hb[:n])
			hb = hb[n:]
		}
		pairs = append(pairs, Pair{f[0], f[1]})
	}
	return pairs, b[5+size:], nil
}

// Get returns the last value of name.
func Get(pairs []Pair, name string) (string, bool) {
	v, ok := "", false
	for _, p := range pairs {
		if p.Name == name {
			v, ok = p.Value, true
		}
	}
	return v, ok
}

// OpID extracts _opid of an unframed message.
func OpID(b []byte) (uint64, error) {
	pairs, _, err := Parse(b)
	if err != nil {
		return 0, err
	}
	v, ok := Get(pairs, "_opid")
	if !ok {
		return 0, errors.New("no _opid")
	}
	return strconv.ParseUint(v, 10, 64)
}
