// Package faultio is a scripted thrift.TTransport: the driver feeds inbound
// bytes, ends or fails the stream at a chosen point and decides what every
// Write / Flush / Open / Close does.
package faultio

import (
	"context"
	"errors"
	"io"
	"sync"

	"github.com/apache/thrift/lib/go/thrift"
)

type Pipe struct {
	mu      sync.Mutex
	cond    *sync.Cond
	buf     []byte
	eof     bool
	readErr error
	open    bool
	waiters int // readers blocked in Read
	waitersAt map[int]int // ... by the epoch in which the read was issued
	epoch   int // incremented by Close: a Read blocked across a Close fails, as on a socket

	// Behaviour switches (read under mu).
	OpenErr       error // returned by the next Open (then cleared)
	OpenFailures  int   // the next OpenFailures calls of Open fail with ErrInjected
	CloseErr      error // returned by the next Close (then cleared); the pipe stays open
	CloseEndsRead bool  // Close makes blocked readers fail (like a socket); default true

	// OnWrite / OnFlush, when set, are called outside mu and may block.
	OnWrite func(b []byte) error
	OnFlush func(ctx context.Context) error
	// OnOpen / OnClose, when set, are called outside mu before the state change and may block (a stalled
	// connect / lingering close); a non-nil error makes the call fail.
	OnOpen  func() error
	OnClose func() error

	Written [][]byte
	Opens   int
	OpenOK  int
	Closes  int
	Reads   int
}

func New() *Pipe {
	p := &Pipe{CloseEndsRead: true, waitersAt: map[int]int{}}
	p.cond = sync.NewCond(&p.mu)
	return p
}

func (p *Pipe) Open() error {
	p.mu.Lock()
	ho := p.OnOpen
	p.mu.Unlock()
	if ho != nil {
		if err := ho(); err != nil {
			return err
		}
	}
	p.mu.Lock()
	defer p.mu.Unlock()
	p.Opens++
	if p.OpenErr != nil {
		e := p.OpenErr
		p.OpenErr = nil
		return e
	}
	if p.OpenFailures > 0 {
		p.OpenFailures--
		return ErrInjected
	}
	p.OpenOK++
	p.open = true
	p.eof = false
	p.readErr = nil
	return nil
}

func (p *Pipe) IsOpen() bool { p.mu.Lock(); defer p.mu.Unlock(); return p.open }

func (p *Pipe) Close() error {
	p.mu.Lock()
	hc := p.OnClose
	p.mu.Unlock()
	if hc != nil {
		if err := hc(); err != nil {
			return err
		}
	}
	p.mu.Lock()
	defer p.mu.Unlock()
	p.Closes++
	if p.CloseErr != nil {
		e := p.CloseErr
		p.CloseErr = nil
		return e
	}
	p.open = false
	p.epoch++
	if p.CloseEndsRead {
		p.eof = true
		p.buf = nil
		p.cond.Broadcast()
	}
	return nil
}

func (p *Pipe) Read(b []byte) (int, error) {
	p.mu.Lock()
	defer p.mu.Unlock()
	p.Reads++
	epoch := p.epoch
	for len(p.buf) == 0 && !p.eof && p.readErr == nil && (p.epoch == epoch || !p.CloseEndsRead) {
		p.waiters++
		p.waitersAt[epoch]++
		p.cond.Wait()
		p.waitersAt[epoch]--
		p.waiters--
	}
	if p.epoch != epoch && p.CloseEndsRead {
		return 0, thrift.NewTTransportExceptionFromError(io.EOF)
	}
	if len(p.buf) == 0 {
		if p.readErr != nil {
			return 0, p.readErr
		}
		return 0, thrift.NewTTransportExceptionFromError(io.EOF)
	}
	if len(b) == 0 {
		return 0, nil
	}
	n := copy(b, p.buf)
	p.buf = p.buf[n:]
	return n, nil
}

func (p *Pipe) Write(b []byte) (int, error) {
	p.mu.Lock()
	h := p.OnWrite
	p.Written = append(p.Written, append([]byte(nil), b...))
	p.mu.Unlock()
	if h != nil {
		if err := h(b); err != nil {
			return 0, err
		}
	}
	return len(b), nil
}

func (p *Pipe) Flush(ctx context.Context) error {
	p.mu.Lock()
	h := p.OnFlush
	p.mu.Unlock()
	if h != nil {
		return h(ctx)
	}
	return nil
}

func (p *Pipe) RemainingBytes() uint64 { return ^uint64(0) }

// Feed appends inbound bytes.
func (p *Pipe) Feed(b []byte) {
	p.mu.Lock()
	p.buf = append(p.buf, b...)
	p.cond.Broadcast()
	p.mu.Unlock()
}

// EOF ends the inbound stream after the bytes fed so far (peer disconnected).
func (p *Pipe) EOF() {
	p.mu.Lock()
	p.eof = true
	p.cond.Broadcast()
	p.mu.Unlock()
}

// Fail makes reads fail with err once the buffered bytes are consumed.
func (p *Pipe) Fail(err error) {
	p.mu.Lock()
	p.readErr = err
	p.cond.Broadcast()
	p.mu.Unlock()
}

// SetOpenFailures makes the next k Open calls fail.
func (p *Pipe) SetOpenFailures(k int) { p.mu.Lock(); p.OpenFailures = k; p.mu.Unlock() }

// SetOpenErr makes the next Open fail with err (nil clears).
func (p *Pipe) SetOpenErr(err error) { p.mu.Lock(); p.OpenErr = err; p.mu.Unlock() }

// SetCloseErr makes the next Close fail with err.
func (p *Pipe) SetCloseErr(err error) { p.mu.Lock(); p.CloseErr = err; p.mu.Unlock() }

func (p *Pipe) OpenOKCount() int { p.mu.Lock(); defer p.mu.Unlock(); return p.OpenOK }

// Waiters is the number of goroutines blocked in Read.
// WaitersCurrent is the number of reads blocked right now that were issued after the last Open (a read blocked across a
// Close is about to fail and does not count).
func (p *Pipe) WaitersCurrent() int { p.mu.Lock(); defer p.mu.Unlock(); return p.waitersAt[p.epoch] }

func (p *Pipe) Waiters() int { p.mu.Lock(); defer p.mu.Unlock(); return p.waiters }

// Pending is the number of inbound bytes not yet read.
func (p *Pipe) Pending() int { p.mu.Lock(); defer p.mu.Unlock(); return len(p.buf) }

func (p *Pipe) WriteCount() int { p.mu.Lock(); defer p.mu.Unlock(); return len(p.Written) }

var ErrInjected = errors.New("faultio: injected failure")

var _ thrift.TTransport = (*Pipe)(nil)
