// Package brokers starts the embedded NATS server (random port) and the go-stomp test server.
package brokers

import (
	"fmt"
	"net"
	"time"

	stompserver "github.com/go-stomp/stomp/server"
	"github.com/nats-io/nats-server/v2/server"
	"github.com/nats-io/nats.go"
)

type Nats struct {
	S *server.Server
}

func StartNats() (*Nats, error) {
	s, err := server.NewServer(&server.Options{Port: -1, Host: "127.0.0.1", NoLog: true, NoSigs: true, MaxPayload: 8 << 20, MaxPending: 256 << 20})
	if err != nil {
		return nil, err
	}
	go s.Start()
	if !s.ReadyForConnections(10 * time.Second) {
		return nil, fmt.Errorf("embedded nats-server did not start")
	}
	return &Nats{S: s}, nil
}

func (n *Nats) Conn() (*nats.Conn, error) {
	return nats.Connect(n.S.ClientURL(), nats.MaxReconnects(0))
}

func (n *Nats) Stop() { n.S.Shutdown() }

// StartStomp runs the go-stomp server on a random loopback port and returns its address.
func StartStomp() (addr string, stop func(), err error) {
	l, err := net.Listen("tcp", "127.0.0.1:0")
	if err != nil {
		return "", nil, err
	}
	go stompserver.Serve(l)
	return l.Addr().String(), func() { l.Close() }, nil
}
