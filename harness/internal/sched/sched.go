// Package sched is the gate controller behind the verif hooks: it records every
// hook event with a sequence number taken under its own mutex and can park a
// goroutine at a yield point until the driver releases it.
package sched

import (
	"fmt"
	"regexp"
	"runtime"
	"strings"
	"sync"
	"time"

	frugal "github.com/Workiva/frugal/lib/go"
)

// Event is one hook call.
type Event struct {
	Seq   int    `json:"seq"`
	Point string `json:"ev"`
	Obj   int    `json:"obj"`
	ID    uint64 `json:"op"`
	N     int    `json:"n"`
}

// parkable lists the yield points that are outside every library lock.
var parkable = map[string]bool{
	"reg.send": true, "req.wait": true, "req.result": true, "req.err": true, "req.timeout": true,
	"life.rl.start": true, "life.rl.err": true, "life.rl.closing": true, "life.rl.signalled": true,
}

type Ctl struct {
	mu     sync.Mutex
	log    []Event
	objs   map[interface{}]int
	armed  map[string]chan struct{}
	parked map[string]int
	// Extra is called (outside the mutex) for every event; may be nil.
	Extra func(Event)
}

func New() *Ctl {
	return &Ctl{objs: map[interface{}]int{}, armed: map[string]chan struct{}{}, parked: map[string]int{}}
}

// Install makes c the process-wide hook target.
func (c *Ctl) Install() { frugal.VerifHook = c.Hook }

func key(p string, id uint64) string { return fmt.Sprintf("%s/%d", p, id) }

const anyID = ^uint64(0)

// AnyID stands for "whatever the id" in Arm / Release / Parked / WaitParked.
const AnyID = anyID

func (c *Ctl) Hook(point string, obj interface{}, id uint64, n int) {
	c.mu.Lock()
	oi, ok := c.objs[obj]
	if !ok {
		oi = len(c.objs) + 1
		c.objs[obj] = oi
	}
	e := Event{Seq: len(c.log) + 1, Point: point, Obj: oi, ID: id, N: n}
	c.log = append(c.log, e)
	var ch chan struct{}
	var k string
	if parkable[point] {
		k = key(point, id)
		ch = c.armed[k]
		if ch == nil {
			k = key(point, anyID)
			ch = c.armed[k]
		}
		if ch != nil {
			c.parked[key(point, id)]++
		}
	}
	c.mu.Unlock()
	if ch != nil {
		<-ch
		c.mu.Lock()
		c.parked[key(point, id)]--
		c.mu.Unlock()
	}
}

// Emit records a driver-side event (same sequence as hook events).
func (c *Ctl) Emit(point string, id uint64, n int) Event {
	c.mu.Lock()
	e := Event{Seq: len(c.log) + 1, Point: point, ID: id, N: n}
	c.log = append(c.log, e)
	c.mu.Unlock()
	return e
}

// ObjID returns the small integer a hook object was mapped to (0 if unseen).
func (c *Ctl) ObjID(obj interface{}) int {
	c.mu.Lock()
	defer c.mu.Unlock()
	return c.objs[obj]
}

// Arm makes goroutines that reach (point,id) park there until Release.
func (c *Ctl) Arm(point string, id uint64) {
	if !parkable[point] {
		panic("sched: point is not parkable: " + point)
	}
	c.mu.Lock()
	if c.armed[key(point, id)] == nil {
		c.armed[key(point, id)] = make(chan struct{})
	}
	c.mu.Unlock()
}

// ArmAny parks every goroutine reaching point, whatever the id.
func (c *Ctl) ArmAny(point string) { c.Arm(point, anyID) }

func (c *Ctl) Release(point string, id uint64) {
	c.mu.Lock()
	k := key(point, id)
	ch := c.armed[k]
	delete(c.armed, k)
	c.mu.Unlock()
	if ch != nil {
		close(ch)
	}
}

func (c *Ctl) ReleaseAny(point string) { c.Release(point, anyID) }

// ReleaseAll disarms every gate.
func (c *Ctl) ReleaseAll() {
	c.mu.Lock()
	chs := c.armed
	c.armed = map[string]chan struct{}{}
	c.mu.Unlock()
	for _, ch := range chs {
		close(ch)
	}
}

func (c *Ctl) Parked(point string, id uint64) bool {
	c.mu.Lock()
	defer c.mu.Unlock()
	if id == anyID {
		for k, n := range c.parked {
			if n > 0 && strings.HasPrefix(k, point+"/") {
				return true
			}
		}
		return false
	}
	return c.parked[key(point, id)] > 0
}

func (c *Ctl) WaitParked(point string, id uint64, d time.Duration) bool {
	deadline := time.Now().Add(d)
	for !c.Parked(point, id) {
		if time.Now().After(deadline) {
			return false
		}
		time.Sleep(100 * time.Microsecond)
	}
	return true
}

// Len is the number of events so far (use as fromSeq for WaitEvent).
func (c *Ctl) Len() int { c.mu.Lock(); defer c.mu.Unlock(); return len(c.log) }

// WaitEvent waits for an event with Seq > fromSeq satisfying pred.
func (c *Ctl) WaitEvent(fromSeq int, d time.Duration, pred func(Event) bool) (Event, bool) {
	deadline := time.Now().Add(d)
	for {
		c.mu.Lock()
		for _, e := range c.log[fromSeq:] {
			if pred(e) {
				c.mu.Unlock()
				return e, true
			}
		}
		c.mu.Unlock()
		if time.Now().After(deadline) {
			return Event{}, false
		}
		time.Sleep(100 * time.Microsecond)
	}
}

func (c *Ctl) Events() []Event {
	c.mu.Lock()
	defer c.mu.Unlock()
	return append([]Event(nil), c.log...)
}

func (c *Ctl) Count(point string) int {
	n := 0
	for _, e := range c.Events() {
		if e.Point == point {
			n++
		}
	}
	return n
}

var goroutineHdr = regexp.MustCompile(`(?m)^goroutine \d+ \[([^\]]+)\]:`)

// BlockedIn reports whether some goroutine is parked in a state starting with
// `state` (e.g. "chan send", "sync.RWMutex", "semacquire", "select") with fn on its stack.
func BlockedIn(state, fn string) bool {
	buf := make([]byte, 4<<20)
	n := runtime.Stack(buf, true)
	for _, g := range strings.Split(string(buf[:n]), "\n\n") {
		m := goroutineHdr.FindStringSubmatch(g)
		if m != nil && strings.HasPrefix(m[1], state) && strings.Contains(g, fn) {
			return true
		}
	}
	return false
}

// StablyBlockedIn checks BlockedIn twice, gap apart: a parked goroutine does not
// un-park by itself, so two sightings are a state, not a timing guess.
func StablyBlockedIn(state, fn string, gap time.Duration) bool {
	if !BlockedIn(state, fn) {
		return false
	}
	time.Sleep(gap)
	return BlockedIn(state, fn)
}
