// Package rig wires the generated verifrpc service (client, processor, scopes)
// to the real servers and transports of the Go runtime: simple server over
// loopback TCP, HTTP handler, NATS server; plus a scripted handler that
// records what it saw and produces the outcome the driver asks for.
package rig

import (
	"errors"
	"fmt"
	"net"
	"net/http"
	"net/http/httptest"
	"strings"
	"sync"
	"sync/atomic"
	"time"

	frugal "github.com/Workiva/frugal/lib/go"
	"github.com/apache/thrift/lib/go/thrift"
	"github.com/nats-io/nats.go"

	"verifharness/gen/verifbase"
	"verifharness/gen/verifrpc"
	"verifharness/internal/brokers"
)

// Call is one handler invocation as the handler saw it.
type Call struct {
	Method  string
	Args    []interface{}
	ReqHdr  map[string]string
	Cid     string
	Timeout time.Duration
	OpID    string
}

// Outcome scripts what the handler does for a call. Kind: "return" | "declared" (first declared
// exception) | "declared2" | "undeclared" | "appex" | "panic-free-sleep".
type Outcome struct {
	Kind     string
	RespHdr  map[string]string
	SleepFor time.Duration
	BigReply int // > 0: string/binary results are this long
}

// Handler implements verifrpc.FStore.
type Handler struct {
	mu    sync.Mutex
	Calls []Call
	// Script returns the outcome for the n-th call of method (0-based). nil = always "return".
	Script func(method string, n int, args []interface{}) Outcome
	counts map[string]int
	Gate   func(method string, args []interface{}) // optional: called (may block) before the outcome is produced
}

func NewHandler() *Handler { return &Handler{counts: map[string]int{}} }

func (h *Handler) enter(ctx frugal.FContext, method string, args ...interface{}) Outcome {
	h.mu.Lock()
	n := h.counts[method]
	h.counts[method]++
	c := Call{Method: method, Args: args, ReqHdr: ctx.RequestHeaders(), Cid: ctx.CorrelationID(), Timeout: ctx.Timeout()}
	c.OpID = c.ReqHdr["_opid"]
	h.Calls = append(h.Calls, c)
	script := h.Script
	gate := h.Gate
	h.mu.Unlock()
	if gate != nil {
		gate(method, args)
	}
	o := Outcome{Kind: "return"}
	if script != nil {
		o = script(method, n, args)
	}
	for k, v := range o.RespHdr {
		ctx.AddResponseHeader(k, v)
	}
	if o.SleepFor > 0 {
		time.Sleep(o.SleepFor)
	}
	return o
}

func (h *Handler) Snapshot() []Call {
	h.mu.Lock()
	defer h.mu.Unlock()
	return append([]Call(nil), h.Calls...)
}

func (h *Handler) Count(method string) int {
	h.mu.Lock()
	defer h.mu.Unlock()
	return h.counts[method]
}

var ErrUndeclared = errors.New("verif: undeclared handler failure")

func failure(o Outcome, d1, d2 error) error {
	switch o.Kind {
	case "declared":
		return d1
	case "declared2":
		if d2 != nil {
			return d2
		}
		return d1
	case "undeclared":
		return ErrUndeclared
	case "appex":
		return thrift.NewTApplicationException(frugal.APPLICATION_EXCEPTION_INTERNAL_ERROR+37, "verif: handler's own application exception")
	}
	return nil
}

func (h *Handler) Ping(ctx frugal.FContext, s string) (string, error) {
	o := h.enter(ctx, "ping", s)
	if err := failure(o, ErrUndeclared, nil); err != nil {
		return "", err
	}
	if o.BigReply > 0 {
		return strings.Repeat("z", o.BigReply), nil
	}
	return "pong:" + s, nil
}
func (h *Handler) Note(ctx frugal.FContext, s string) error {
	o := h.enter(ctx, "note", s)
	return failure(o, ErrUndeclared, nil)
}
func (h *Handler) Get(ctx frugal.FContext, id verifrpc.ID) (*verifbase.Item, error) {
	o := h.enter(ctx, "get", int64(id))
	if err := failure(o, &verifbase.Oops{Msg: "oops", Code: int32(id)}, &verifrpc.Denied{Why: "denied"}); err != nil {
		return nil, err
	}
	name := fmt.Sprintf("item-%d", id)
	if o.BigReply > 0 {
		name = strings.Repeat("n", o.BigReply)
	}
	return &verifbase.Item{ID: int64(id), Name: &name, Kinds: []verifbase.Kind{verifbase.Kind_B}, M: map[string][]int32{"k": {1, 2}}, Blob: []byte{0, 255}, Flag: true}, nil
}
func (h *Handler) Put(ctx frugal.FContext, it *verifbase.Item) error {
	o := h.enter(ctx, "put", it)
	return failure(o, &verifrpc.Denied{Why: "denied"}, nil)
}
func (h *Handler) Add(ctx frugal.FContext, a, b int32) (int32, error) {
	o := h.enter(ctx, "add", a, b)
	if err := failure(o, ErrUndeclared, nil); err != nil {
		return 0, err
	}
	return a + b, nil
}
func (h *Handler) Names(ctx frugal.FContext, filter map[string]int64, c *verifrpc.Choice) ([]string, error) {
	o := h.enter(ctx, "names", filter, c)
	if err := failure(o, ErrUndeclared, nil); err != nil {
		return nil, err
	}
	out := []string{}
	for k := range filter {
		out = append(out, k)
	}
	if o.BigReply > 0 {
		out = append(out, strings.Repeat("L", o.BigReply))
	}
	return out, nil
}
func (h *Handler) Echo(ctx frugal.FContext, data []byte) ([]byte, error) {
	o := h.enter(ctx, "echo", data)
	if err := failure(o, ErrUndeclared, nil); err != nil {
		return nil, err
	}
	if o.BigReply > 0 {
		return []byte(strings.Repeat("e", o.BigReply)), nil
	}
	return data, nil
}
func (h *Handler) Fire(ctx frugal.FContext, ev string, n int64) error {
	o := h.enter(ctx, "fire", ev, n)
	return failure(o, ErrUndeclared, nil)
}

// ProtocolFactory returns the FProtocolFactory for "binary" | "compact" | "json".
func ProtocolFactory(name string) *frugal.FProtocolFactory {
	switch name {
	case "compact":
		return frugal.NewFProtocolFactory(thrift.NewTCompactProtocolFactoryConf(nil))
	case "json":
		return frugal.NewFProtocolFactory(thrift.NewTJSONProtocolFactory())
	}
	return frugal.NewFProtocolFactory(thrift.NewTBinaryProtocolFactoryConf(nil))
}

// Env is one running server of a given kind with a way to make client transports for it.
type Env struct {
	Kind      string // "tcp" | "http" | "nats" | "mem"
	Proto     string
	PF        *frugal.FProtocolFactory
	Handler   *Handler
	Processor frugal.FProcessor
	Addr      string // tcp address / http URL / nats subject
	Nats      *brokers.Nats
	NatsConn  *nats.Conn // server-side connection
	stop      []func()
	HTTPPanic func(interface{}) // called when the HTTP handler panicked
	// DropAfterHandler, when set to 1, makes the HTTP server process the next request completely and then close the
	// connection without writing a byte of the response (Rpc!CallDropped); it resets itself
	DropAfterHandler int32
}

var natsShared *brokers.Nats
var envSeq int

// SharedNats returns the process-wide embedded NATS server.
func SharedNats() (*brokers.Nats, error) {
	if natsShared == nil {
		s, err := brokers.StartNats()
		if err != nil {
			return nil, err
		}
		natsShared = s
	}
	return natsShared, nil
}

// Start brings up a server of the given kind around a fresh scripted handler.
func Start(kind, proto string, middleware ...frugal.ServiceMiddleware) (*Env, error) {
	h := NewHandler()
	e := &Env{Kind: kind, Proto: proto, PF: ProtocolFactory(proto), Handler: h}
	e.Processor = verifrpc.NewFStoreProcessor(h, middleware...)
	return e, e.serve()
}

// StartWith serves a caller-supplied processor.
func StartWith(kind, proto string, p frugal.FProcessor) (*Env, error) {
	e := &Env{Kind: kind, Proto: proto, PF: ProtocolFactory(proto), Processor: p}
	return e, e.serve()
}

func (e *Env) serve() error {
	envSeq++
	switch e.Kind {
	case "tcp":
		ln, err := net.Listen("tcp", "127.0.0.1:0")
		if err != nil {
			return err
		}
		addr := ln.Addr().String()
		ln.Close()
		st, err := thrift.NewTServerSocket(addr)
		if err != nil {
			return err
		}
		srv := frugal.NewFSimpleServer(e.Processor, st, e.PF)
		go srv.Serve()
		e.Addr = addr
		e.stop = append(e.stop, func() { srv.Stop() })
		// wait until it accepts
		for i := 0; i < 200; i++ {
			c, err := net.DialTimeout("tcp", addr, 100*time.Millisecond)
			if err == nil {
				c.Close()
				break
			}
			time.Sleep(2 * time.Millisecond)
		}
	case "http":
		inner := frugal.NewFrugalHandlerFunc(e.Processor, e.PF)
		ts := httptest.NewServer(http.HandlerFunc(func(w http.ResponseWriter, r *http.Request) {
			defer func() {
				if p := recover(); p != nil {
					if e.HTTPPanic != nil {
						e.HTTPPanic(p)
					}
					panic(p)
				}
			}()
			if atomic.CompareAndSwapInt32(&e.DropAfterHandler, 1, 0) {
				inner(httptest.NewRecorder(), r)
				if hj, ok := w.(http.Hijacker); ok {
					if c, _, err := hj.Hijack(); err == nil {
						c.Close()
						return
					}
				}
				panic(http.ErrAbortHandler)
			}
			inner(w, r)
		}))
		e.Addr = ts.URL
		e.stop = append(e.stop, ts.Close)
	case "nats":
		ns, err := SharedNats()
		if err != nil {
			return err
		}
		e.Nats = ns
		conn, err := ns.Conn()
		if err != nil {
			return err
		}
		e.NatsConn = conn
		e.Addr = fmt.Sprintf("verif.svc.%d", envSeq)
		srv := frugal.NewFNatsServerBuilder(conn, e.Processor, e.PF, []string{e.Addr}).WithWorkerCount(2).Build()
		done := make(chan struct{})
		go func() { srv.Serve(); close(done) }()
		// Serve subscribes asynchronously: wait until the subject has interest
		probe, err := ns.Conn()
		if err != nil {
			return err
		}
		for i := 0; i < 500; i++ {
			conn.Flush()
			if ns.S.NumSubscriptions() > 0 {
				// make sure THIS subject is subscribed: a request with no responders gets a 503 immediately
				m, err := probe.Request(e.Addr, nil, 20*time.Millisecond)
				if err == nats.ErrTimeout || (err == nil && m != nil) {
					break
				}
			}
			time.Sleep(time.Millisecond)
		}
		probe.Close()
		e.stop = append(e.stop, func() {
			srv.Stop()
			select {
			case <-done:
			case <-time.After(5 * time.Second):
			}
			conn.Close()
		})
	case "mem":
	default:
		return fmt.Errorf("unknown server kind %q", e.Kind)
	}
	return nil
}

func (e *Env) Stop() {
	for i := len(e.stop) - 1; i >= 0; i-- {
		e.stop[i]()
	}
	e.stop = nil
}

// memTransport is an in-memory FTransport: it runs the processor inline.
type memTransport struct {
	e       *Env
	closed  chan error
	Sent    [][]byte
	Replies [][]byte
	mu      sync.Mutex
	limit   uint
}

func (m *memTransport) Open() error                         { return nil }
func (m *memTransport) IsOpen() bool                        { return true }
func (m *memTransport) Close() error                        { return nil }
func (m *memTransport) Closed() <-chan error                { return m.closed }
func (m *memTransport) SetMonitor(frugal.FTransportMonitor) {}
func (m *memTransport) GetRequestSizeLimit() uint           { return m.limit }
func (m *memTransport) Oneway(ctx frugal.FContext, payload []byte) error {
	_, err := m.Request(ctx, payload)
	return err
}
func (m *memTransport) Request(ctx frugal.FContext, payload []byte) (thrift.TTransport, error) {
	m.mu.Lock()
	m.Sent = append(m.Sent, append([]byte(nil), payload...))
	m.mu.Unlock()
	in := thrift.NewTMemoryBuffer()
	in.Write(payload[4:])
	out := thrift.NewTMemoryBuffer()
	if err := m.e.Processor.Process(m.e.PF.GetProtocol(in), m.e.PF.GetProtocol(out)); err != nil {
		return nil, err
	}
	m.mu.Lock()
	m.Replies = append(m.Replies, append([]byte(nil), out.Bytes()...))
	m.mu.Unlock()
	if out.Len() == 0 {
		return nil, nil
	}
	return out, nil
}

// ReplyCount is the number of non-empty reply frames the in-memory server produced.
func (m *memTransport) ReplyCount() int {
	m.mu.Lock()
	defer m.mu.Unlock()
	n := 0
	for _, r := range m.Replies {
		if len(r) > 0 {
			n++
		}
	}
	return n
}

// ClientTransport returns an opened client FTransport talking to this server.
func (e *Env) ClientTransport() (frugal.FTransport, func(), error) {
	switch e.Kind {
	case "tcp":
		tr := frugal.NewAdapterTransport(thrift.NewTSocketConf(e.Addr, nil))
		if err := tr.Open(); err != nil {
			return nil, nil, err
		}
		return tr, func() { tr.Close() }, nil
	case "http":
		tr := frugal.NewFHTTPTransportBuilder(&http.Client{}, e.Addr).Build()
		tr.Open()
		return tr, func() { tr.Close() }, nil
	case "nats":
		cc, err := e.Nats.Conn()
		if err != nil {
			return nil, nil, err
		}
		tr := frugal.NewFNatsTransport(cc, e.Addr, "")
		if err := tr.Open(); err != nil {
			return nil, nil, err
		}
		cc.Flush()
		return tr, func() { tr.Close(); cc.Close() }, nil
	case "mem":
		return &memTransport{e: e, closed: make(chan error, 1)}, func() {}, nil
	}
	return nil, nil, fmt.Errorf("kind")
}

// Client returns a generated client over a fresh transport.
func (e *Env) Client(middleware ...frugal.ServiceMiddleware) (*verifrpc.FStoreClient, frugal.FTransport, func(), error) {
	tr, closeFn, err := e.ClientTransport()
	if err != nil {
		return nil, nil, nil, err
	}
	return verifrpc.NewFStoreClient(frugal.NewFServiceProvider(tr, e.PF), middleware...), tr, closeFn, nil
}
