package main

import (
	"encoding/json"
	"fmt"
	"os"

	"github.com/Workiva/frugal/compiler/parser"
)

func main() {
	f, err := parser.ParseFrugal(os.Args[1])
	if err != nil {
		fmt.Println("ERR", err)
		os.Exit(1)
	}
	for _, s := range f.Services {
		s.Frugal = nil
	}
	for _, s := range f.Scopes {
		s.Frugal = nil
		for _, o := range s.Operations {
			o.Scope = nil
		}
	}
	f.ParsedIncludes = nil
	b, _ := json.MarshalIndent(f, "", " ")
	fmt.Println(string(b))
}
