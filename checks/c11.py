#!/usr/bin/env python3
"""C11 - the compiler is total: valid IDL yields valid code, bad input a diagnostic."""
import os, sys, json, re, random, shutil, subprocess, time, html.parser
from concurrent.futures import ThreadPoolExecutor
sys.path.insert(0, os.path.join(os.path.dirname(os.path.abspath(__file__)), "..", "lib"))
from vlib import *

HARD_FEATURE = {"keywords": "keyword-identifier", "container-keys": "container-key", "nested-typedef": "nested-typedef"}
FIXED_FILES = ["inc.frugal", "left.frugal", "right.frugal", "a/common.frugal", "b/common.frugal"]   # written by idlcheck next to every program
PY2 = "/root/.pyenv/versions/2.7.18/bin/python"
TARGETS = ["go", "java", "dart", "py", "py:asyncio", "py:tornado", "json", "html"]
OPTIONS = {"go": ["", "go:package_prefix=verifharness/x/", "go:async,slim", "go:frugal_import=github.com/Workiva/frugal/lib/go,thrift_import=github.com/apache/thrift/lib/go/thrift"],
           "java": ["", "java:async", "java:boxed_primitives", "java:suppress_deprecated_logging"],
           "dart": ["", "dart:use_enums", "dart:use_null_for_unset"], "py": ["", "py:package_prefix=pre."], "py:asyncio": [""], "py:tornado": [""],
           "json": [""], "html": ["", "html:standalone"]}


def idl_cfg(tricky, emit_at, breaks, hard="none", focus="all"):
    return ("SPECIFICATION Spec\nCONSTANTS MaxDecls = 2 Tricky = %s EmitAt = %d WithBreaks = %s Focus = \"%s\" Hard = \"%s\"\nINVARIANTS AlwaysValid Emit\nCHECK_DEADLOCK FALSE\n"
            % (tricky, emit_at, breaks, focus, hard))


def run_frugal(frugal, args, cwd, timeout=10):
    t0 = time.time()
    try:
        p = subprocess.run([frugal] + args, cwd=cwd, stdout=subprocess.PIPE, stderr=subprocess.STDOUT, timeout=timeout, text=True, errors="replace")
        return p.returncode, p.stdout, time.time() - t0
    except subprocess.TimeoutExpired as ex:
        return "timeout", (ex.stdout or b"").decode("utf8", "replace") if isinstance(ex.stdout, bytes) else (ex.stdout or ""), time.time() - t0


def crashed(out):
    return bool(re.search(r"^(panic:|fatal error:|goroutine \d+ \[)", out, re.M)) or "runtime error" in out or "stack overflow" in out


class H(html.parser.HTMLParser):
    pass


def balanced(text):
    """Dart well-formedness proxy: brackets balance outside strings and comments."""
    stack, i, n = [], 0, len(text)
    pairs = {")": "(", "]": "[", "}": "{"}
    while i < n:
        c = text[i]
        if text.startswith("//", i):
            j = text.find("\n", i)
            i = n if j < 0 else j
            continue
        if text.startswith("/*", i):
            j = text.find("*/", i + 2)
            i = n if j < 0 else j + 2
            continue
        if c in "'\"":
            q = c
            if text.startswith(q * 3, i):
                j = text.find(q * 3, i + 3)
                i = n if j < 0 else j + 3
                continue
            i += 1
            while i < n and text[i] != q:
                if text[i] == "\\":
                    i += 1
                if text[i] == "\n":
                    return False
                i += 1
            i += 1
            continue
        if c in "([{":
            stack.append(c)
        elif c in ")]}":
            if not stack or stack.pop() != pairs[c]:
                return False
        i += 1
    return not stack


def features(prog):
    """degenerate / special constructs of an abstract program, in priority order (used in violation keys)"""
    o = json.loads(prog) if isinstance(prog, str) else prog
    f = []
    kw = {"type", "def", "class", "func", "return"}
    if any(fl["name"] in kw for s in o["structs"] for fl in s["fields"]) or any(a["name"] in kw for s in o["services"] for m in s["methods"] for a in m["args"]):
        f.append("keyword-identifier")
    if any(len(e["vals"]) == 0 for e in o["enums"]):
        f.append("empty-enum")
    if any(len(s["methods"]) == 0 for s in o["services"]):
        f.append("service-without-methods")
    if any(len(s["ops"]) == 0 for s in o["scopes"]):
        f.append("scope-without-operations")
    if any(len(s["fields"]) == 0 and s["kind"] == "union" for s in o["structs"]):
        f.append("union-without-members")
    if any(len(s["fields"]) == 0 for s in o["structs"]):
        f.append("struct-without-fields")
    names = {s["name"]: s["kind"] for s in o["structs"]}
    def walk(t):
        yield t
        for k in ("v", "key"):
            if k in t and isinstance(t[k], dict):
                yield from walk(t[k])
    alltypes = []
    for td in o["typedefs"]:
        alltypes += list(walk(td["t"]))
        if td["t"]["k"] == "ref" and (td["t"]["n"] in names or td["t"]["n"].startswith("inc.")):
            f.append("typedef-of-a-struct")
    for s in o["structs"]:
        for fl in s["fields"]:
            alltypes += list(walk(fl["t"]))
    for s in o["services"]:
        for m in s["methods"]:
            for r in m["ret"]:
                alltypes += list(walk(r))
            for a in m["args"]:
                alltypes += list(walk(a["t"]))
    for s in o["scopes"]:
        for op in s["ops"]:
            alltypes += list(walk(op["t"]))
    for t in alltypes:
        if t["k"] == "set" and t["v"]["k"] in ("list", "set", "map"):
            f.insert(0, "container-key")
        if t["k"] == "map" and t["key"]["k"] in ("list", "set", "map"):
            f.insert(0, "container-key")
    return list(dict.fromkeys(f)) or ["plain"]


def canon_t(t):
    if t["k"] in ("list", "set"):
        return "%s<%s>" % (t["k"], canon_t(t["v"]))
    if t["k"] == "map":
        return "map<%s,%s>" % (canon_t(t["key"]), canon_t(t["v"]))
    return t["n"]


def lit_key(prog):
    """the (const | default) x type a program of the focus "consts" exercises, '' for its base program"""
    o = json.loads(prog)
    for c in o["consts"]:
        if c["name"] == "MAX":
            return "literal/const/" + canon_t(c["t"])
    for s in o["structs"]:
        if s["name"] == "Holder" and s["fields"]:
            return "literal/default/" + canon_t(s["fields"][0]["t"])
    return ""


def run(ctx):
    thorough = ctx.tier == "thorough"
    ctx.rule = ("(a) valid programs: well-formed abstract programs from IDL.tla (random walks of 14 steps, with and without "
                "keyword-prefixed identifiers) rendered in 5 lexical styles, compiled with the real frugal binary for go, java, dart, "
                "py, py:asyncio, py:tornado, json, html under several option sets: exit 0, no panic / fatal error text, <= 10 s; the Go "
                "output must build against the runtime (default options), Python must byte-compile, Java must parse (JavacTask.parse), "
                "JSON / HTML must parse, Dart must be bracket-balanced; the repository's own testdata/idl files go through the same "
                "mill; (b) invalid programs: one invalidating edit of the model as the last step (dangling type, duplicate field id / "
                "name, typedef cycles of length 1..3, oneway with result / throws, missing include, duplicate struct / enum value / "
                "argument name, extends of a missing service, throws of a non-exception, default of the wrong type, duplicate prefix "
                "variable) and (c) byte- and token-level mutations of rendered programs: non-zero exit with a message or a clean "
                "success, never a panic, stack overflow or hang. non-trivial = invalid, mutated or >= 3 declarations; distinct by text")
    ctx.assumptions += ["valid = IDL!Valid; Dart output is only checked for balanced brackets / quotes (no SDK); Java output is parsed, not "
                        "type-checked (no Frugal / Thrift jars); Go output is type-checked for the default option set and for async,slim"]
    frugal = ctx.frugal_bin()
    progs = []
    old = ctx.seed
    for tricky in ("FALSE", "TRUE"):
        for k in range(2 if thorough else 1):
            ctx.seed = old * 17 + k + (50 if tricky == "TRUE" else 0)
            r = ctx.tlc("IDL", "i.cfg", cfg_text=idl_cfg(tricky, 14, "TRUE"), workers=1, simulate=3 if not thorough else 6, depth=14, timeout=1200)
            if not r.ok:
                ctx.seed = old
                raise MachineryError("IDL simulation failed: " + r.out[-1500:])
            for s in r.printed:
                if s.startswith("PROG "):
                    progs.append(s[5:])
    # every use of a typedef chain over an enum / a struct: all programs one step away from IDL!EnumRefsBase (focus "enumrefs",
    # exhaustive), plus a few random walks further out
    r = ctx.tlc_must_hold("IDL", "i.cfg", cfg_text=idl_cfg("FALSE", 1, "FALSE", focus="enumrefs").replace("CHECK_DEADLOCK", "CONSTRAINT Bounded\nCHECK_DEADLOCK"),
                          workers=NCPU, timeout=1200)
    focusprogs = list(dict.fromkeys(s[5:] for s in r.printed if s.startswith("PROG ")))
    ctx.seed = old * 29
    r = ctx.tlc("IDL", "i.cfg", cfg_text=idl_cfg("FALSE", 4, "FALSE", focus="enumrefs"), workers=1, simulate=6 if thorough else 2, depth=4, timeout=1200)
    if not r.ok:
        ctx.seed = old
        raise MachineryError("IDL simulation (enumrefs) failed: " + r.out[-1500:])
    fp = list(dict.fromkeys(s[5:] for s in r.printed if s.startswith("PROG ")))
    rng0 = random.Random(ctx.seed)
    rng0.shuffle(fp)
    focusprogs += fp[:(400 if thorough else 60)]
    # every type of the pool (both kinds of includes on) used once as the only argument, result or scope operation of an otherwise
    # empty user (focus "uses", exhaustive): an import the generator forgets has nothing else to hide behind
    r = ctx.tlc_must_hold("IDL", "i.cfg", cfg_text=idl_cfg("FALSE", 1, "FALSE", focus="uses").replace("CHECK_DEADLOCK", "CONSTRAINT Bounded\nCHECK_DEADLOCK"),
                          workers=4, timeout=1200)
    uses = list(dict.fromkeys(s[5:] for s in r.printed if s.startswith("PROG ")))
    ctx.extra["focus_uses_programs"] = len(uses)
    focusprogs += uses
    # a constant, or a field default, of every type of the pool with every literal of IDL!Lits (focus "consts", exhaustive in the
    # model; the quick tier compiles a seeded sample of it)
    r = ctx.tlc_must_hold("IDL", "i.cfg", cfg_text=idl_cfg("FALSE", 1, "FALSE", focus="consts").replace("CHECK_DEADLOCK", "CONSTRAINT Bounded\nCHECK_DEADLOCK"),
                          workers=4, timeout=1200)
    lits = [q for q in dict.fromkeys(s[5:] for s in r.printed if s.startswith("PROG ")) if lit_key(q)]
    ctx.extra["focus_consts_programs_in_model"] = len(lits)
    if not thorough:
        random.Random(old * 31 + 7).shuffle(lits)
        bytype = {}
        for q in lits:
            bytype.setdefault(lit_key(q), []).append(q)
        lits = [qs[0] for _, qs in sorted(bytype.items())]      # one literal per (const | field) x type ...
        lits = [q for i, q in enumerate(lits) if (i + old) % 2 == 0]   # ... and of those every other one, by seed
    else:
        random.Random(old * 31 + 7).shuffle(lits)
        lits = lits[:320]      # (all 669 are parsed by C10; here each costs four compilations and a Go build)
    ctx.extra["focus_consts_programs"] = len(lits)
    litkeys = {q: lit_key(q) for q in lits}
    focusprogs += lits
    focusprogs = list(dict.fromkeys(focusprogs))
    ctx.extra["focus_enumrefs_programs"] = len(focusprogs) - len(uses) - len(lits)
    # every invalidating edit applied to a program in which all of them are applicable (focus "breaks", exhaustive)
    r = ctx.tlc_must_hold("IDL", "i.cfg", cfg_text=idl_cfg("FALSE", 1, "TRUE", focus="breaks").replace("CHECK_DEADLOCK", "CONSTRAINT Bounded\nCHECK_DEADLOCK"),
                          workers=4, timeout=600)
    breakprogs = [q for q in dict.fromkeys(s[5:] for s in r.printed if s.startswith("PROG ")) if json.loads(q)["broken"] != "none"]
    if len(set(json.loads(q)["broken"] for q in breakprogs)) < 18:
        raise MachineryError("focus 'breaks' yields only %d kinds of invalid programs" % len(set(json.loads(q)["broken"] for q in breakprogs)))
    # the families of constructs the generators are known to mishandle, generated apart from everything else
    hardprogs = {}
    for hard in ("keywords", "container-keys", "nested-typedef"):
        ctx.seed = old * 17 + 99
        r = ctx.tlc("IDL", "i.cfg", cfg_text=idl_cfg("FALSE", 14, "FALSE", hard), workers=1, simulate=2 if not thorough else 4, depth=14, timeout=1200)
        if not r.ok:
            ctx.seed = old
            raise MachineryError("IDL simulation (%s) failed: " % hard + r.out[-1500:])
        hp = [s[5:] for s in r.printed if s.startswith("PROG ")]
        hp = [q for q in dict.fromkeys(hp) if json.loads(q)["broken"] == "hard:" + hard]
        hp.sort(key=lambda q: -len(q))
        hardprogs[hard] = hp[:(24 if thorough else 8)]
    ctx.seed = old
    progs = list(dict.fromkeys(progs))
    rng = random.Random(ctx.seed)
    valid = [p for p in progs if json.loads(p)["broken"] == "none"]
    broken = [p for p in progs if json.loads(p)["broken"] != "none" and not json.loads(p)["broken"].startswith("hard:")]
    rng.shuffle(valid)
    nvalid = 150 if thorough else 40
    # keep programs with many declarations
    valid.sort(key=lambda p: -sum(len(json.loads(p)[k]) for k in ("typedefs", "enums", "consts", "structs", "services", "scopes")))
    valid = valid[:nvalid * 3]
    rng.shuffle(valid)
    valid = valid[:nvalid]
    nmain = len(valid)
    valid += [q for q in focusprogs if q not in set(valid)]
    bykind = {}
    for p in broken:
        bykind.setdefault(json.loads(p)["broken"], []).append(p)
    broken = [p for k in sorted(bykind) for p in bykind[k][:(6 if thorough else 2)]] + [q for q in breakprogs if q not in set(progs)]
    allp = valid + broken + [q for h in sorted(hardprogs) for q in hardprogs[h]]
    inp = os.path.join(ctx.scratch, "c11_progs.ndjson")
    open(inp, "w").write("\n".join(allp) + "\n")
    binary = ctx.go_build("idlcheck")
    rdir = os.path.join(ctx.scratch, "c11src")
    p = ctx.run_driver(binary, ["-mode", "render", "-in", inp, "-dir", rdir], timeout=600)
    if p.returncode != 0:
        raise MachineryError("render failed: " + p.stdout[-1500:])
    dirs = sorted(os.listdir(rdir))
    feat = {d: features(allp[i]) for i, d in enumerate(dirs)}
    for i, d in enumerate(dirs):
        b = json.loads(allp[i])["broken"]
        if b.startswith("hard:"):
            feat[d] = [b[5:]]
        elif b != "none":
            feat[d] = ["defect:" + b]
        elif allp[i] in litkeys:
            feat[d] = [litkeys[allp[i]]]
    # the repository's own IDL files as extra valid inputs
    extra = []
    td = os.path.join(REPO, "compiler/testdata/idl")
    for f in sorted(os.listdir(td)):
        if f.endswith(".frugal") and f in ("variety.frugal", "base.frugal", "actual_base.dart.frugal", "service_inheritance.frugal"):
            extra.append(os.path.join(td, f))
    outroot = os.path.join(ctx.scratch, "c11out")
    jobs = []   # (label, kind, srcdir, file, target_with_opts, expect, outdir)
    for i, d in enumerate(dirs):
        lab = open(os.path.join(rdir, d, "broken.txt")).read().strip() or "none"
        if lab.startswith("hard:"):
            lab = "none"    # a valid program; its family is in feat[d]
        tgts = TARGETS if lab == "none" else ["go", "java", "py", "json"]
        if lab == "none" and nmain <= i < len(valid):
            tgts = ["go", "java", "py", "dart"]    # the focus programs: default options of four targets (+ Go's slim flavour every third)
        for t in tgts:
            opts = OPTIONS[t] if (lab == "none" and i % 4 == 0 and i < nmain) else OPTIONS[t][:1]
            if t == "go" and lab == "none" and nmain <= i < len(valid) and i % 3 == 0:
                opts = ["", "go:async,slim"]
            for o in opts:
                gen = o or t
                jobs.append((d, lab, os.path.join(rdir, d), "main.frugal", gen, "ok" if lab == "none" else "diagnostic",
                             os.path.join(outroot, d, re.sub(r"[^a-z0-9]+", "_", gen))))
    for f in extra:
        for t in TARGETS:
            jobs.append((os.path.basename(f), "none", os.path.dirname(f), os.path.basename(f), t, "ok",
                         os.path.join(outroot, "x_" + os.path.basename(f)[:-7], re.sub(r"[^a-z0-9]+", "_", t))))
    # mutated texts: byte- and token-level mutations of rendered valid programs
    mdir = os.path.join(ctx.scratch, "c11mut")
    os.makedirs(mdir)
    toks = ["struct", "{", "}", "(", ")", "<", ">", ",", ";", ":", "=", "typedef", "enum", "service", "extends", "oneway", "throws", "scope", "prefix",
            "include", "namespace", "const", "required", "optional", "void", "list", "map", "set", "\"", "'", "/*", "*/", "//", "#", "{x}", ".", "-1", "1e999", "0x", "\x00", "\xff", "é"]
    nmut = 600 if thorough else 160
    srcs = [open(os.path.join(rdir, d, "main.frugal"), errors="replace").read() for d in dirs if open(os.path.join(rdir, d, "broken.txt")).read().strip() in ("none", "")]
    for k in range(nmut):
        t = rng.choice(srcs)
        for _ in range(rng.randint(1, 3)):
            op = rng.randint(0, 4)
            pos = rng.randint(0, max(0, len(t) - 1))
            if op == 0:
                t = t[:pos] + t[pos + rng.randint(1, 12):]
            elif op == 1:
                t = t[:pos] + rng.choice(toks) + t[pos:]
            elif op == 2:
                words = re.split(r"(\s+)", t)
                if len(words) > 2:
                    a = rng.randrange(0, len(words), 2)
                    words[a] = rng.choice(toks)
                    t = "".join(words)
            elif op == 3:
                t = t[:pos] + t[pos:pos + rng.randint(1, 40)] * rng.randint(2, 30) + t[pos:]
            else:
                t = t[:pos]
        d = os.path.join(mdir, "m%04d" % k)
        os.makedirs(d)
        open(os.path.join(d, "main.frugal"), "w", errors="replace").write(t)
        for fx in FIXED_FILES:
            os.makedirs(os.path.dirname(os.path.join(d, fx)), exist_ok=True)
            shutil.copy(os.path.join(rdir, dirs[0], fx), os.path.join(d, fx))
        jobs.append(("m%04d" % k, "mutated", d, "main.frugal", rng.choice(["go", "java", "py", "dart", "json", "html"]), "either", os.path.join(outroot, "m%04d" % k)))

    def one(job):
        lab, kind, src, f, gen, expect, out = job
        rc, text, wall = run_frugal(frugal, ["-gen", gen, "-out", out, "-r", f], cwd=src)
        return job, rc, text, wall

    t0 = time.time()
    with ThreadPoolExecutor(max_workers=NCPU) as ex:
        results = list(ex.map(one, jobs))
    ctx.extra["compiler_runs"] = len(results)
    ctx.extra["compiler_wall_s"] = round(time.time() - t0, 1)
    okgo, okpy, okjava, okdart, okjson, okhtml = [], [], [], [], [], []
    accepted = {}
    for job, rc, text, wall in results:
        lab, kind, src, f, gen, expect, out = job
        tgt = "py:asyncio" if gen.startswith("py:asyncio") else ("py:tornado" if gen.startswith("py:tornado") else gen.split(":")[0])
        srctext = open(os.path.join(src, f), errors="replace").read()
        rp = dict(input=srctext[:4000], gen=gen, kind=kind, exit=rc, output=text[-1500:])
        ctx.case(key=[srctext, gen], nontrivial=(kind != "none" or srctext.count("\n") > 8))
        if rc == "timeout" or wall > 10:
            ctx.violation("hang/%s/%s" % (kind, tgt), "frugal -gen %s did not finish within 10 s on a %s input" % (gen, kind), rp)
            continue
        if crashed(text):
            m = re.search(r"(panic: .*|fatal error: .*|runtime error: .*)", text)
            ctx.violation("crash/%s/%s" % (kind if kind != "none" else feat.get(job[0], ["repo-idl"])[0], tgt), "frugal -gen %s crashed on a %s input: %s" % (gen, kind, m.group(1) if m else text[-200:]), rp)
            continue
        if expect == "ok" and rc != 0:
            ctx.violation("valid-rejected/%s/%s" % (tgt, feat.get(lab if lab in feat else job[0], ["plain"])[0]), "frugal -gen %s rejected a valid program (features %s): %s" % (gen, feat.get(job[0]), text.strip()[-300:]), rp)
            continue
        if expect == "diagnostic" and rc != 0:
            if not text.strip():
                ctx.violation("no-message/%s" % kind, "frugal -gen %s exited %s without any message for '%s'" % (gen, rc, kind), rp)
            continue
        if rc != 0:
            continue
        if expect == "diagnostic":
            # The compiler took the program for a valid one.  Whether frugal's notion of validity has to exclude this
            # defect is not for the check to decide; what the property then demands is well-formed output, so the
            # emitted files go through the same validation as those of valid programs (Go: must build).
            accepted.setdefault(kind, set()).add(tgt)
        if kind != "mutated":
            {"go": okgo, "py": okpy, "py:asyncio": okpy, "py:tornado": okpy, "java": okjava, "dart": okdart, "json": okjson, "html": okhtml}[tgt].append((job, out))
    # ---- well-formedness of what was emitted for valid programs ----
    # Python
    for job, out in okpy:
        py = "python3"
        if not job[4].startswith("py:asyncio") and os.path.exists(PY2):
            py = PY2    # the vanilla and tornado targets emit Python 2 code (raise a, b, c); asyncio is Python 3
        p = sh([py, "-m", "compileall", "-q", out], check=False, timeout=300)
        if p.returncode != 0:
            ctx.violation("emitted-python-does-not-compile/%s" % feat.get(job[0], ["repo-idl"])[0], "python3 -m compileall rejects the output of -gen %s (program features %s): %s" % (job[4], feat.get(job[0]), p.stdout[-400:]),
                          dict(input=open(os.path.join(job[2], job[3])).read(), gen=job[4], output=p.stdout[-1500:]))
    # JSON / HTML
    for job, out in okjson:
        for root, _, fs in os.walk(out):
            for f in fs:
                try:
                    json.load(open(os.path.join(root, f)))
                except Exception as e:
                    ctx.violation("emitted-json-malformed", "output of -gen json does not parse: %s" % e, dict(input=open(os.path.join(job[2], job[3])).read()))
    for job, out in okhtml:
        for root, _, fs in os.walk(out):
            for f in fs:
                if f.endswith(".html"):
                    try:
                        H().feed(open(os.path.join(root, f), errors="replace").read())
                    except Exception as e:
                        ctx.violation("emitted-html-malformed", "output of -gen html does not parse: %s" % e, dict(input=open(os.path.join(job[2], job[3])).read()))
    # Dart
    for job, out in okdart:
        for root, _, fs in os.walk(out):
            for f in fs:
                if f.endswith(".dart") and not balanced(open(os.path.join(root, f), errors="replace").read()):
                    ctx.violation("emitted-dart-unbalanced/%s" % feat.get(job[0], ["repo-idl"])[0], "brackets / quotes of %s do not balance (-gen %s)" % (f, job[4]), dict(input=open(os.path.join(job[2], job[3])).read(), file=f))
    # Java: parse only
    jfiles = []
    for job, out in okjava:
        for root, _, fs in os.walk(out):
            jfiles += [os.path.join(root, f) for f in fs if f.endswith(".java")]
    if jfiles:
        jd = os.path.join(ctx.scratch, "javaparse")
        os.makedirs(jd)
        sh(["javac", "-d", jd, os.path.join(VERIF, "harness/java/ParseOnly.java")], timeout=300)
        lst = os.path.join(jd, "files.txt")
        open(lst, "w").write("\n".join(jfiles) + "\n")
        p = sh(["java", "-cp", jd, "ParseOnly", "@" + lst], check=False, timeout=900)
        if p.returncode != 0:
            seenj = set()
            for l in p.stdout.splitlines():
                m = re.search(r"c11out/([^/]+)/[^/]+/.*\.java:\d+: error: (.*)", l)
                if m and m.group(1) not in seenj:
                    seenj.add(m.group(1))
                    d = m.group(1)
                    src = open(os.path.join(rdir, d, "main.frugal")).read() if os.path.exists(os.path.join(rdir, d, "main.frugal")) else ""
                    ctx.violation("emitted-java-does-not-parse/%s" % feat.get(d, ["repo-idl"])[0], "javac's parser rejects emitted Java (program features %s): %s" % (feat.get(d), l[-200:]), dict(input=src, error=l))
        ctx.extra["java_files_parsed"] = len(jfiles)
    # Go: build the default-option outputs against the runtime, inside the harness module copy
    h = ctx.harness()
    gobuilt = 0
    for job, out in okgo:
        if job[4] not in ("go", "go:async,slim"):
            continue
        # regenerate with a package prefix that resolves inside the harness module (the slim flavour next to the default one)
        tag = re.sub(r"[^A-Za-z0-9]", "", job[0]) + ("slim" if job[4] != "go" else "")
        dst = os.path.join(h, "gen11", tag)
        fname = job[3]
        if fname == "main.frugal":
            # without a go namespace the package is named after the file; "main" would demand a func main
            shutil.copy(os.path.join(job[2], fname), os.path.join(job[2], "prog.frugal"))
            fname = "prog.frugal"
        rc, text, wall = run_frugal(frugal, ["-gen", "go:%spackage_prefix=verifharness/gen11/%s/" % ("async,slim," if job[4] != "go" else "", tag), "-out", dst, "-r", fname], cwd=job[2])
        if rc != 0:
            continue
        gobuilt += 1
    if gobuilt:
        p = sh(["go", "build", "-tags", "verif", "./gen11/..."], cwd=h, check=False, timeout=1800)
        if p.returncode != 0:
            bad = sorted(set(re.findall(r"gen11/([A-Za-z0-9]+)/", p.stdout)))
            for tag in bad[:12]:
                job = [j for j, _ in okgo if re.sub(r"[^A-Za-z0-9]", "", j[0]) + ("slim" if j[4] != "go" else "") == tag and j[4] in ("go", "go:async,slim")]
                src = open(os.path.join(job[0][2], job[0][3])).read() if job else ""
                msgs = [l for l in p.stdout.splitlines() if ("gen11/%s/" % tag) in l][:5]
                dkey = job[0][0] if job else tag
                cls = feat.get(dkey, ["repo-idl"])[0]
                ctx.violation("emitted-go-does-not-compile/" + cls, "the Go output for a valid program does not build against the runtime: %s" % msgs, dict(input=src, errors=msgs))
        ctx.extra["go_packages_built"] = gobuilt
    ctx.traces_validated = len(results)
    ctx.extra["defects_the_compiler_accepts"] = {k: sorted(v) for k, v in sorted(accepted.items())}
    ctx.extra.update(dict(valid_programs=len(valid), invalid_programs=len(broken), invalid_kinds=sorted(bykind), mutated_texts=nmut, extra_idl_files=[os.path.basename(f) for f in extra]))
    ctx.sample(dict(kind="valid", text=srcs[0][:1500]))
    ctx.sample(dict(kind="invalid:" + json.loads(broken[0])["broken"] if broken else "none"))
    ctx.exhaustive = False


if __name__ == "__main__":
    main("C11", run, "exploration")
