#!/usr/bin/env python3
"""C17 - op ids are unique and FContexts are safe to share and clone."""
import os, sys, json
sys.path.insert(0, os.path.join(os.path.dirname(os.path.abspath(__file__)), "..", "lib"))
from vlib import *


def run(ctx):
    thorough = ctx.tier == "thorough"
    ctx.rule = ("behaviours = random walks (TLC -simulate, seed from VERIF_SEED) of Context over 4 context slots: New, Clone (of "
                "clones too), AddRequestHeader / AddResponseHeader / AddEphemeralProperty (incl. empty and multi-byte strings), "
                "SetTimeout, ServerRead (the context goes over the wire and a handler context is built), ClientMerge; each step is "
                "applied to real FContexts and the FULL state of EVERY live context (user request / response headers, ephemeral "
                "properties, op id relative to the allocation counter, cid, timeout, response op id) is compared with the "
                "specification's - aliasing between a clone and its source shows up as a change in the wrong context; plus 16 "
                "goroutines sharing contexts under the race detector (disjoint keys: schedule-independent final state) creating, "
                "cloning and receiving 70k contexts whose op ids must all differ. non-trivial = behaviour contains Clone, "
                "ServerRead or ClientMerge; distinct by JSON")
    ctx.assumptions += ["the replay driver is the only creator of contexts while a behaviour runs (op ids compared as offsets of the global counter)",
                        "the Go race detector reports unsynchronised access to the shared contexts"]
    ctx.tlc_must_hold("Context", "c.cfg", timeout=1200, workers=NCPU, heap="10g", cfg_text=(
        'SPECIFICATION Spec\nCONSTANTS Ctxs = {1,2,3} Names = {"a","b"} Vals = {"x","y"} MaxSteps = %d\n'
        'INVARIANTS UniqueOps FreshHandlerOp\nPROPERTIES OneChanges CloneEqual\nCHECK_DEADLOCK FALSE\n' % (5 if not thorough else 6)))
    n = 3000 if thorough else 400
    depth = 14 if thorough else 11
    r = ctx.tlc("ContextGen", "g.cfg", workers=1, simulate=n, depth=depth, timeout=900, count=False, cfg_text=(
        'SPECIFICATION GSpec\nCONSTANTS Ctxs = {1,2,3,4} Names = {"a","u8"} Vals = {"","u8v"} MaxSteps = %d Depth = %d\n'
        'INVARIANTS Emit\nCHECK_DEADLOCK FALSE\n' % (depth - 1, depth)))
    behs, seen = [], set()
    for s in r.printed:
        if s.startswith("B ") and s not in seen:
            seen.add(s)
            behs.append(s[2:])
    if not behs:
        raise MachineryError("ContextGen produced no behaviours")
    binary = ctx.go_build("ctxcheck")
    inp = os.path.join(ctx.scratch, "ctx_beh.ndjson")
    open(inp, "w").write("\n".join(behs) + "\n")
    out = os.path.join(ctx.scratch, "ctx_r.json")
    p = ctx.run_driver(binary, ["-mode", "replay", "-in", inp, "-out", out], timeout=900)
    if p.returncode != 0 or not os.path.exists(out):
        if "panic:" in p.stdout or "fatal error" in p.stdout:
            ctx.violation("replay/process-died", p.stdout[-1500:], p.stdout[-3000:])
        else:
            raise MachineryError("ctxcheck failed: " + p.stdout[-2000:])
    else:
        res = json.load(open(out))
        for v in res.get("violations") or []:
            ctx.violation(v["key"], v["text"], v["replay"])
        ctx.traces_validated += res["runs"]
        ctx.extra["replay_steps"] = res["steps"]
        for s in res.get("samples") or []:
            ctx.sample(dict(kind="behaviour", steps=s), limit=1)
    for b in behs:
        ctx.case(key=b, nontrivial=any(k in b for k in ('"Clone"', '"ServerRead"', '"ClientMerge"')))
    # concurrency under the race detector
    race_bin = ctx.go_build("ctxcheck", race=True, name="ctxcheck_race")
    out2 = os.path.join(ctx.scratch, "ctx_c.json")
    p = ctx.run_driver(race_bin, ["-mode", "concurrent", "-out", out2, "-workers", "16", "-per", "4000" if thorough else "1000"], timeout=1800, mem_kb=30000000)
    if "DATA RACE" in p.stdout:
        i = p.stdout.find("WARNING: DATA RACE")
        ctx.violation("concurrent/data-race", "the race detector reports unsynchronised access to a shared FContext: " + p.stdout[i:i + 1500], p.stdout[i:i + 4000])
    elif p.returncode != 0 or not os.path.exists(out2):
        if "panic:" in p.stdout or "fatal error" in p.stdout:
            ctx.violation("concurrent/process-died", p.stdout[-1500:], p.stdout[-3000:])
        else:
            raise MachineryError("ctxcheck -race failed: " + p.stdout[-2000:])
    if os.path.exists(out2):
        res = json.load(open(out2))
        for v in res.get("violations") or []:
            ctx.violation(v["key"], v["text"], v["replay"])
        ctx.extra["concurrent_contexts_created"] = res["steps"]
        ctx.case(key=["concurrent", 16], nontrivial=True)
        ctx.sample(dict(kind="concurrent", goroutines=16, contexts=res["steps"]))
    ctx.exhaustive = False


if __name__ == "__main__":
    main("C17", run, "model_checking")
