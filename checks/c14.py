#!/usr/bin/env python3
"""C14 - the server answers every two-way request exactly once with a well-formed reply."""
import os, sys, json
sys.path.insert(0, os.path.join(os.path.dirname(os.path.abspath(__file__)), "..", "lib"))
from vlib import *


def find(ctx, name):
    for root, _, files in os.walk(ctx.scratch):
        if name in files:
            return os.path.join(root, name)


def run(ctx):
    thorough = ctx.tier == "thorough"
    ctx.rule = ("cases = every sequence of request kinds {ok, ok with a reply over the caller-stated limit (HTTP 413), malformed arguments, unknown method, declared exception, undeclared "
                "error, handler's application exception, oneway, failing oneway} of length <= L (quick 3, thorough 4) enumerated by "
                "TLC with the reply list Server's Process forces; each sequence is sent as hand-built frames on its own connection "
                "(4 (thorough 8) connections concurrently) to the real simple (TCP), HTTP and NATS servers running the generated "
                "processor with a scripted handler, under binary / compact / JSON protocols; raw reply frames are parsed "
                "independently: count, order (per connection), op id, correlation id, message type, exception type; handler "
                "invocations counted. non-trivial = contains a request that is not 'ok'; distinct by (server, protocol, sequence)")
    ctx.assumptions += ["after a request with undecodable arguments a stream connection may be lost (later requests on it are "
                        "optional); every other kind must leave the connection usable",
                        "a failing oneway call is answered with an exception frame by the generated code (only successful oneway calls are silent)"]
    for kind in ("simple", "message"):
        ctx.tlc_must_hold("Server", "s.cfg", timeout=900, cfg_text=(
            'SPECIFICATION Spec\nCONSTANTS Conns = {1,2} MaxReq = 2 ServerKind = "%s"\nINVARIANTS OneReplyEach HandlerAtMostOnce Survives\n'
            'PROPERTIES AllAnswered\nCHECK_DEADLOCK FALSE\n' % kind))
    L = 4 if thorough else 3
    ctx.tlc_must_hold("ServerCases", "c.cfg", workers=1, timeout=900, heap="8g",
                      cfg_text="SPECIFICATION Spec\nCONSTANTS MaxLen = %d\nCHECK_DEADLOCK FALSE\n" % L)
    cases_file = find(ctx, "server_cases.json")
    cases = json.load(open(cases_file))
    ctx.states += len(cases)
    ctx.transitions += len(cases)
    binary = ctx.go_build("server")
    out = os.path.join(ctx.scratch, "srv_res.json")
    stride = 1 if thorough else 2
    p = ctx.run_driver(binary, ["-in", cases_file, "-out", out, "-stride", str(stride), "-offset", str(ctx.seed % stride),
                                "-parallel", "8" if thorough else "4"], timeout=3000)
    if p.returncode != 0 or not os.path.exists(out):
        full = p.stdout
        if "panic:" in full or "fatal error" in full:
            import re
            m = re.search(r"^(panic: .*|fatal error: .*)$", full, re.M)
            ctx.violation("server-process-died", "the server process died: %s" % (m.group(1) if m else full[-800:]), full[-3000:])
            return
        raise MachineryError("server driver failed: " + full[-2000:])
    res = json.load(open(out))
    for v in res.get("violations") or []:
        ctx.violation(v["key"], v["text"], v["replay"])
    n = 0
    for s in ("tcp", "http", "nats"):
        for pr in ("binary", "compact", "json"):
            n += 1
            for i, c in enumerate(cases):
                if (i + ctx.seed % stride + n) % stride == 0:
                    ctx.case(key=[s, pr, c["kinds"]], nontrivial=any(k != "ok" for k in c["kinds"]))
    ctx.traces_validated = res["runs"]
    ctx.extra["connections_run"] = res["runs"]
    ctx.extra["requests_sent"] = res["requests"]
    for s in res.get("samples") or []:
        ctx.sample(s)
    ctx.exhaustive = (stride == 1)


if __name__ == "__main__":
    main("C14", run, "model_checking")
