#!/usr/bin/env python3
"""C07 - pub/sub delivers each message once, intact, and isolates bad messages."""
import os, sys, json
sys.path.insert(0, os.path.join(os.path.dirname(os.path.abspath(__file__)), "..", "lib"))
from vlib import *


def ps_cfg(n, workers, qlen, onshort, unsub, props=True):
    return ('SPECIFICATION Spec\nCONSTANTS N = %d Workers = {%s} QLen = %d OnShort = "%s" AllowUnsub = %s\n'
            'INVARIANTS AtMostOnce OnlyOk InOrder NoLate AckIffDelivered\n%sCHECK_DEADLOCK FALSE\n'
            % (n, ",".join(str(i) for i in range(1, workers + 1)), qlen, onshort, unsub, "PROPERTIES Eventually\n" if props else ""))


def find(ctx, name):
    for root, _, files in os.walk(ctx.scratch):
        if name in files:
            return os.path.join(root, name)


def run(ctx):
    thorough = ctx.tier == "thorough"
    ctx.rule = ("cases = every sequence of message kinds {valid, short (<4 bytes), bad header, wrong operation name, foreign "
                "topic} of length <= L (quick 3, thorough 4) x every Unsubscribe position, plus backlogs of 200 / 400 (thorough 3000) "
                "well-formed messages published while the handler is held inside the first one, enumerated by TLC with the handler "
                "log the PubSub properties force; run through the generated publisher/subscriber over embedded NATS (1, 2 "
                "(thorough 3) workers) and STOMP (go-stomp server), bad messages published raw; oracle: handler log (ids, "
                "order for one worker, payload, publisher headers incl. _topic_user, cid) = expectation, a sentinel published "
                "after the sequence is delivered (bad messages are isolated), nothing published after Unsubscribe returned "
                "is delivered; the NATS event log (publish, handler start, unsubscribe) is validated by TLC against PubSub. "
                "non-trivial = contains a bad / foreign message or an Unsubscribe; distinct by (transport, workers, case)")
    ctx.assumptions += ["'published while subscribed' = Subscribe returned and the publisher flushed; before Unsubscribe the driver "
                        "waits for quiescence (messages in flight at Unsubscribe are nobody's guarantee)",
                        "the go-stomp test server does not send the RECEIPT go-stomp's Unsubscribe waits for: Unsubscribe and broker-side "
                        "acks are only exercised on NATS", "nats-server and go-stomp preserve publish order per topic"]
    ctx.tlc_must_hold("PubSub", "p.cfg", cfg_text=ps_cfg(4, 1, 2, "skip", "FALSE"), timeout=600)
    ctx.tlc_must_hold("PubSub", "p.cfg", cfg_text=ps_cfg(4, 2, 1, "skip", "FALSE"), timeout=600)
    ctx.tlc_must_hold("PubSub", "p.cfg", cfg_text=ps_cfg(4, 2, 1, "skip", "TRUE", props=False), timeout=900)
    ctx.tlc("PubSub", "p.cfg", cfg_text=ps_cfg(4, 1, 2, "exit", "FALSE"), expect_violation="temporal", count=False, timeout=600)
    if thorough:
        ctx.tlc_must_hold("PubSub", "p.cfg", cfg_text=ps_cfg(5, 3, 2, "skip", "TRUE", props=False), timeout=3000, workers=NCPU, heap="12g")
    L = 4 if thorough else 3
    ctx.tlc_must_hold("PubSubCases", "pc.cfg", workers=1, timeout=600,
                      cfg_text="SPECIFICATION Spec\nCONSTANTS MaxLen = %d WithUnsub = TRUE Bursts = {%s}\nCHECK_DEADLOCK FALSE\n" % (L, "200, 400, 3000" if thorough else "200, 400"))
    cases_file = find(ctx, "pubsub_cases.json")
    cases = json.load(open(cases_file))
    ctx.states += len(cases)
    ctx.transitions += len(cases)
    binary = ctx.go_build("pubsub")
    out = os.path.join(ctx.scratch, "ps_res.json")
    trace = os.path.join(ctx.scratch, "pubsub_trace.ndjson")
    workers = "1,2,3" if thorough else "1,2"
    p = ctx.run_driver(binary, ["-in", cases_file, "-out", out, "-trace", trace, "-workers", workers], timeout=3000)
    if p.returncode != 0 or not os.path.exists(out):
        full = p.stdout
        if "panic:" in full or "fatal error" in full:
            ctx.violation("process-died", "the subscriber process died: " + full[-1500:], full[-3000:])
            return
        raise MachineryError("pubsub driver failed: " + full[-2000:])
    res = json.load(open(out))
    for v in res.get("violations") or []:
        ctx.violation(v["key"], v["text"], v["replay"])
    for n in res.get("notes") or []:
        ctx.note(n)
    nw = len(workers.split(","))
    for t, ws in (("nats", range(1, nw + 1)), ("stomp", [1])):
        for w in ws:
            for c in cases:
                if t == "stomp" and c["unsub"] != 0:
                    continue
                ctx.case(key=[t, w, c["kinds"], c["unsub"], c["stall"]], nontrivial=(c["unsub"] != 0 or c["stall"] or any(k != "ok" for k in c["kinds"])))
    ctx.extra["runs"] = res["runs"]
    ctx.extra["messages_published"] = res["published"]
    ctx.extra["handler_invocations"] = res["delivered"]
    for s in res.get("samples") or []:
        ctx.sample(s)
    if not res.get("violations"):
        r = ctx.tlc("PubSubTrace", "PubSubTrace.cfg", workers=1, timeout=3000, heap="10g",
                    extra_files={"pubsub_trace.ndjson": open(trace).read()})
        if r.ok:
            ctx.traces_validated = open(trace).read().count('"reset"')
        else:
            at = [s for s in r.printed if s.startswith("REJECTED-AT")]
            lines = open(trace).read().splitlines()
            k = int(at[0].split()[1]) if at else 1
            ctx.violation("nats/trace-rejected", "the recorded publish / handler / unsubscribe events are not a behaviour of PubSub "
                          "(rejected at event %s: %s)" % (k, lines[max(0, k - 6):k + 1]), dict(excerpt=lines[max(0, k - 30):k + 2]))
    ctx.exhaustive = True


if __name__ == "__main__":
    main("C07", run, "model_checking")
