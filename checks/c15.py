#!/usr/bin/env python3
"""C15 - transport failure is detected, reported once and recoverable, repeatedly."""
import os, sys, json
sys.path.insert(0, os.path.join(os.path.dirname(os.path.abspath(__file__)), "..", "lib"))
from vlib import *


def life_cfg(gen, att, mon, sig, seq, iw=1, mw=3, start_atomic="TRUE", closefail=None):
    # a failing underlying Close() is explored in Sequential mode (user Close at quiescence); in the fully concurrent
    # mode it races the end of the stream, a corner outside C15's fault list (DESIGN 5.C15)
    return ('SPECIFICATION Spec\nCONSTANTS MaxGen = %d MaxAttempts = %d InitialWait = %d MaxWait = %d WithMonitor = %s '
            'CloseSignal = "%s" Sequential = %s AllowCloseFail = %s StartAtomic = %s\n'
            'INVARIANTS FailureDetected OpenHasReader NoStaleReader OneCause ClosedHasCause CauseNilIffClean NoSpuriousClose '
            'AttemptsBounded WaitBounded MonitorToldEveryClose QuietMatch\nPROPERTIES CloseReturns\nCHECK_DEADLOCK FALSE\n'
            % (gen, att, iw, mw, mon, sig, seq, closefail or seq, start_atomic))


def abs_cfg(gen, att, mon, iw=1, mw=3):
    return ('SPECIFICATION ASpec\nCONSTANTS MaxGen = %d MaxAttempts = %d InitialWait = %d MaxWait = %d WithMonitor = %s\n'
            'INVARIANTS ClosedAfterFault CausePublishedOnce AttemptsBounded WaitsBounded AliveMeansOpen\n'
            'PROPERTIES StepAction\nCHECK_DEADLOCK FALSE\n' % (gen, att, iw, mw, mon))


def gen_cfg(gen, att, mon, depth, iw=1, mw=3):
    return ('SPECIFICATION GSpec\nCONSTANTS MaxGen = %d MaxAttempts = %d InitialWait = %d MaxWait = %d WithMonitor = %s Depth = %d\n'
            'INVARIANTS Emit\nCHECK_DEADLOCK FALSE\n' % (gen, att, iw, mw, mon, depth))


def histories(ctx, gen, att, mon, depth, simulate=None):
    r = ctx.tlc("LifeAbsGen", "g.cfg", cfg_text=gen_cfg(gen, att, mon, depth), workers=1 if simulate else 4,
                simulate=simulate, depth=depth + 1 if simulate else None, timeout=600, count=simulate is None)
    out, seen = [], set()
    for s in r.printed:
        if s.startswith("H ") and s not in seen:
            seen.add(s)
            out.append(s[2:])
    return out


def drive(ctx, binary, mode, hists, cfg, tag):
    inp = os.path.join(ctx.scratch, "h_%s.ndjson" % tag)
    with open(inp, "w") as fh:
        fh.write("\n".join(hists) + "\n")
    out = os.path.join(ctx.scratch, "r_%s.json" % tag)
    args = ["-mode", mode, "-in", inp, "-out", out, "-config", json.dumps(cfg)]
    p = ctx.run_driver(binary, args, timeout=1500)
    if p.returncode != 0 or not os.path.exists(out):
        raise MachineryError("life driver failed (rc %s): %s" % (p.returncode, p.stdout[-3000:]))
    res = json.load(open(out))
    for v in res.get("violations") or []:
        ctx.violation("%s/%s" % (tag.split("-")[0], v["key"]), v["text"], v["replay"])
    for n in res.get("notes") or []:
        ctx.note(n)
    return res


TRACE_CFG = ('SPECIFICATION TSpec\nCONSTANTS MaxGen = 4 MaxAttempts = 0 InitialWait = 1 MaxWait = 1 WithMonitor = FALSE CloseSignal = "pergen+id" '
             'Sequential = FALSE AllowCloseFail = TRUE StartAtomic = FALSE\nINVARIANTS TraceOneCause TraceNoSpurious TraceCauseKind NoStaleReader\n'
             'CONSTRAINT HighWater\nPOSTCONDITION Accepted\nCHECK_DEADLOCK FALSE\n')


def validate_trace(ctx, txt, count=True):
    return ctx.tlc("AdapterLifeTrace", "t.cfg", cfg_text=TRACE_CFG, workers=1, timeout=1800, heap="8g",
                   extra_files={"life_trace.ndjson": txt}, dfs=False, count=count)


def trace_validation(ctx, binary, nscen):
    chunk = 500
    total_events = total_scen = 0
    first = None
    for k in range(0, nscen, chunk):
        n = min(chunk, nscen - k)
        tf = os.path.join(ctx.scratch, "life_trace_%d.ndjson" % k)
        out = os.path.join(ctx.scratch, "r_trace_%d.json" % k)
        p = ctx.run_driver(binary, ["-mode", "trace", "-trace", tf, "-n", str(n), "-seed", str(ctx.seed * 1000 + k), "-out", out], timeout=1500)
        if p.returncode != 0 or not os.path.exists(out):
            raise MachineryError("life driver (trace) failed (rc %s): %s" % (p.returncode, p.stdout[-3000:]))
        res = json.load(open(out))
        for v in res.get("violations") or []:
            ctx.violation("trace/" + v["key"], v["text"], v["replay"])
        txt = open(tf).read()
        if not txt.strip():
            raise MachineryError("empty trace")
        first = first or txt
        r = validate_trace(ctx, txt)
        lines = txt.splitlines()
        if r.ok:
            total_scen += res["runs"]
            total_events += len(lines)
            for i in range(res["runs"]):
                ctx.case(key=["trace", k + i], nontrivial=True)
            continue
        at = [s for s in r.printed if s.startswith("REJECTED-AT")]
        kk = int(at[0].split()[1]) if at else 1
        excerpt = lines[max(0, kk - 30):kk + 3]
        if r.violated == "NoStaleReader":
            ctx.violation("stale/stale-reader/open-close-open-before-first-read", "a recorded behaviour shows a read loop of an earlier generation reading "
                          "the reopened transport (NoStaleReader) around event %d" % kk, dict(excerpt=excerpt))
        elif r.violated and r.violated not in ("Accepted", "postcondition"):
            ctx.violation("trace/invariant-" + r.violated, "a recorded behaviour of the adapter transport violates %s of AdapterLife around event %d: %s"
                          % (r.violated, kk, excerpt[-8:]), dict(excerpt=excerpt))
        else:
            ctx.violation("trace/not-a-behaviour", "the recorded events are not a behaviour of AdapterLife: rejected at event %d: %s" % (kk, lines[max(0, kk - 8):kk + 1]),
                          dict(excerpt=excerpt, seed=ctx.seed * 1000 + k))
    ctx.traces_validated += total_scen
    ctx.extra["trace_validation"] = dict(scenarios=total_scen, events=total_events)
    # binding self-test: a trace in which one "the close signal was there" is turned into "was not there" must be rejected
    lines = first.splitlines()
    idx = [i for i, x in enumerate(lines) if '"rl.signalled"' in x]
    if idx:
        lines[idx[0]] = lines[idx[0]].replace("rl.signalled", "rl.closing")
        cut = "\n".join(lines[:lines.index('{"ev":"reset","g":0,"k":""}', idx[0]) + 1]) + "\n"
        r = validate_trace(ctx, cut, count=False)
        if r.ok:
            raise MachineryError("binding self-test: a corrupted life trace (event %d) was accepted by AdapterLifeTrace" % (idx[0] + 1))
        ctx.extra["trace_binding_selftest"] = "turning the rl.signalled of event %d into rl.closing makes TLC reject the trace" % (idx[0] + 1)


def run(ctx):
    thorough = ctx.tier == "thorough"
    ctx.rule = ("histories = every sequence (quick: length 4, thorough: length 5 + random walks of length 7) of "
                "{Open, failing Open, Close, Fault(eof|err|badframe, k failing reopen attempts)} of the user-level machine "
                "LifeAbs, with and without a monitor; each is replayed on the real adapter transport over a scripted "
                "byte stream, the cut offset of fault steps rotating over every byte offset of a 3-frame stream (a write "
                "failure precedes the read failure on odd offsets), and after every step the projected state (IsOpen, "
                "values on each generation's Closed() channel, monitor callback log with attempt numbers and waits, result "
                "of the call) must equal the specification's; plus gate-steered races of a user Close against the read loop "
                "held after its failed read / after its signal check, followed by a second failure; plus free-running scenarios (a user "
                "thread issuing Open / failing Open / Close / failing Close, stream faults, read loops scheduled by the Go runtime) "
                "recorded through the life.* hooks and validated event by event against AdapterLifeTrace. non-trivial = contains "
                "a fault or a race; distinct by JSON of the history")
    ctx.assumptions += ["clean close = user Close() or peer EOF (Go read loop, Java isCleanClose); anything else non-nil",
                        "with a live monitor reopening is the monitor's job (a user Open racing the runner is outside the histories)",
                        "InitialWait <= MaxWait", "quiescence is reached within 3 s; a call that has not returned after 5 s is a deadlock",
                        "a write/flush failure is a broken connection: the next read fails too"]
    # 1. the user-level statements on LifeAbs, 2. the implementation-shaped spec refines it at quiescence and keeps
    # the safety invariants + CloseReturns under every interleaving
    ctx.tlc_must_hold("LifeAbs", "a.cfg", cfg_text=abs_cfg(4, 2, "TRUE"), timeout=300)
    ctx.tlc_must_hold("LifeAbs", "a.cfg", cfg_text=abs_cfg(4, 3, "TRUE", 1, 3), timeout=300)
    ctx.tlc_must_hold("LifeAbs", "a.cfg", cfg_text=abs_cfg(4, 2, "FALSE"), timeout=300)
    ctx.tlc_must_hold("AdapterLife", "l.cfg", cfg_text=life_cfg(3, 2, "TRUE", "pergen+id", "TRUE"), timeout=600)
    ctx.tlc_must_hold("AdapterLife", "l.cfg", cfg_text=life_cfg(3, 2, "FALSE", "pergen+id", "TRUE"), timeout=600)
    if thorough:
        ctx.tlc_must_hold("AdapterLife", "l.cfg", cfg_text=life_cfg(3, 2, "TRUE", "pergen+id", "FALSE"), timeout=1800, workers=NCPU)
        ctx.tlc_must_hold("AdapterLife", "l.cfg", cfg_text=life_cfg(3, 1, "FALSE", "pergen+id", "FALSE"), timeout=1800, workers=NCPU)
        ctx.tlc_must_hold("AdapterLife", "l.cfg", cfg_text=life_cfg(4, 3, "TRUE", "pergen+id", "TRUE"), timeout=1800, workers=NCPU)
        # named deviations must be caught by TLC (anti-vacuity): the shared token of the pinned code, per-generation
        # channel without the generation check
        ctx.tlc("AdapterLife", "l.cfg", cfg_text=life_cfg(3, 2, "TRUE", "shared", "FALSE"), expect_violation="FailureDetected", count=False, timeout=900)
        ctx.tlc("AdapterLife", "l.cfg", cfg_text=life_cfg(3, 1, "FALSE", "pergen", "FALSE"), expect_violation="CauseNilIffClean", count=False, timeout=900)
    else:
        ctx.tlc_must_hold("AdapterLife", "l.cfg", cfg_text=life_cfg(2, 1, "TRUE", "pergen+id", "FALSE"), timeout=600)
        ctx.tlc("AdapterLife", "l.cfg", cfg_text=life_cfg(3, 2, "FALSE", "shared", "TRUE"), expect_violation="FailureDetected", count=False, timeout=300)
    # the start-up latency of the read loop, modelled explicitly: TLC finds the stale-reader schedule
    # (Open, Close, Open before the first loop reads) - a recorded finding, reproduced on real code below
    r = ctx.tlc("AdapterLife", "l.cfg", cfg_text=life_cfg(3, 1, "FALSE", "pergen+id", "FALSE", start_atomic="FALSE"),
                expect_violation="NoStaleReader", count=False, timeout=600)
    if r.violated != "NoStaleReader":
        raise MachineryError("expected NoStaleReader to be the violated invariant with StartAtomic = FALSE, got %s" % r.violated)
    binary = ctx.go_build("life")
    rs = drive(ctx, binary, "stale", [], dict(max_attempts=0, initial_wait_ms=1, max_wait_ms=1, with_monitor=False), "stale")
    ctx.case(key=["stale-reader"], nontrivial=True)
    cut_cov = {}
    total_cuts = 0
    for mon, att in (("TRUE", 2), ("FALSE", 2)) + ((("TRUE", 3),) if thorough else ()):
        depth = 5 if thorough else 4
        hs = histories(ctx, 4, att, mon, depth)
        if thorough:
            hs += histories(ctx, 4, att, mon, 7, simulate=300)
        cfg = dict(max_attempts=att, initial_wait_ms=1, max_wait_ms=3, with_monitor=(mon == "TRUE"))
        tag = "hist-mon%s-att%d" % (mon, att)
        res = drive(ctx, binary, "hist", hs, cfg, tag)
        for h in hs:
            ctx.case(key=[mon, att, h], nontrivial='"fault"' in h)
        ctx.traces_validated += res["runs"]
        ctx.extra.setdefault("history_replays", {})[tag] = dict(histories=res["runs"], steps=res["steps"], faults=res["faults"],
                                                               fault_kinds=res["fault_kinds"], cut_offsets_covered=res["cut_offsets_covered"],
                                                               cut_offsets_total=res["cut_offsets_total"])
        for s in res.get("samples") or []:
            ctx.sample(dict(kind="history", config=cfg, steps=s), limit=4)
        if mon == "FALSE":
            rn = drive(ctx, binary, "natshist", hs, cfg, "nats-" + tag)
            ctx.extra["nats_transport_histories"] = rn["runs"]
    # free-running scenarios recorded through the life.* hooks and validated against AdapterLifeTrace
    trace_validation(ctx, binary, 3000 if thorough else 400)
    rr = drive(ctx, binary, "race", [], dict(max_attempts=0, initial_wait_ms=1, max_wait_ms=1, with_monitor=False), "race")
    for i in range(rr["runs"]):
        ctx.case(key=["race", i], nontrivial=True)
    ctx.extra["race_cases"] = rr["runs"]
    for s in rr.get("samples") or []:
        ctx.sample(dict(kind="race", case=s), limit=6)
    ctx.exhaustive = False


if __name__ == "__main__":
    main("C15", run, "model_checking")
