#!/usr/bin/env python3
"""C16 - middleware intercepts every call exactly once, in the declared order."""
import os, sys, json
sys.path.insert(0, os.path.join(os.path.dirname(os.path.abspath(__file__)), "..", "lib"))
from vlib import *


def find(ctx, name):
    for root, _, files in os.walk(ctx.scratch):
        if name in files:
            return os.path.join(root, name)


def run(ctx):
    thorough = ctx.tier == "thorough"
    ctx.rule = ("cases = every (constructor list, provider list, AddMiddleware list) of middleware kinds {observe, clear error, retry (calls next twice, keeps the first results), rewrite "
                "argument, rewrite result, replace error} with lists of length 0..2 (thorough 0..3) and 0..1 AddMiddleware, "
                "enumerated by TLC with the enter/exit log, final result, error and handler-side argument that Middleware's Invoke "
                "forces (TLC also checks OncePerLayer / Nested / FarSideSeesLastRewrite on each). Each case runs on the generated "
                "client (own method add and inherited method ping; each once more with the caller's list - spare capacity - reused for a second "
                "client with another provider and then overwritten), the generated processor (constructor + AddMiddleware; the "
                "remote caller's view included), the generated publisher and subscriber (NATS). non-trivial = at least two "
                "layers; distinct by (attachment point, case)")
    ctx.assumptions += ["provider middleware wraps constructor middleware; within a list the later entry wraps the earlier; AddMiddleware wraps everything",
                        "publishers / subscribers have no result value: 'rewrite result' layers are exercised on services only"]
    n = 3 if thorough else 2
    ctx.tlc_must_hold("Middleware", "m.cfg", workers=4, timeout=1800, heap="10g", cfg_text=(
        "SPECIFICATION Spec\nCONSTANTS MaxLen = %d\nINVARIANTS OncePerLayer Nested FarSideSeesLastRewrite FirstResultKept ChainIsAValue\nCHECK_DEADLOCK FALSE\n" % n))
    cases_file = find(ctx, "middleware_cases.json")
    cases = json.load(open(cases_file))
    binary = ctx.go_build("mwcheck")
    total = 0
    for proto in (("binary", "compact", "json") if thorough else ("binary", "json")):
        out = os.path.join(ctx.scratch, "mw_%s.json" % proto)
        p = ctx.run_driver(binary, ["-in", cases_file, "-out", out, "-protocol", proto], timeout=3000)
        if p.returncode != 0 or not os.path.exists(out):
            if "panic:" in p.stdout or "fatal error" in p.stdout:
                import re
                m = re.search(r"^(panic: .*|fatal error: .*)$", p.stdout, re.M)
                ctx.violation("process-died/" + proto, "the process died: %s" % (m.group(1) if m else p.stdout[-800:]), p.stdout[-3000:])
                continue
            raise MachineryError("mwcheck failed: " + p.stdout[-2000:])
        res = json.load(open(out))
        for v in res.get("violations") or []:
            ctx.violation(v["key"], v["text"], v["replay"])
        total += res["runs"]
        ctx.extra.setdefault("runs_per_attachment_point", {})[proto] = res["attachment_points"]
        for s in res.get("samples") or []:
            ctx.sample(s, limit=2)
    for c in cases:
        ctx.case(key=c, nontrivial=len(c["ctor"]) + len(c["prov"]) + len(c["added"]) >= 2)
    ctx.traces_validated = total
    ctx.exhaustive = True


if __name__ == "__main__":
    main("C16", run, "model_checking")
