#!/usr/bin/env python3
"""C09 - the request context travels with the call and back."""
import os, sys, json
sys.path.insert(0, os.path.join(os.path.dirname(os.path.abspath(__file__)), "..", "lib"))
from vlib import *


def find(ctx, name):
    for root, _, files in os.walk(ctx.scratch):
        if name in files:
            return os.path.join(root, name)


def run(ctx):
    thorough = ctx.tier == "thorough"
    ctx.rule = ("cases = every (user request-header map, response headers the handler sets, response header the caller already had, "
                "correlation id given / generated, timeout) over names {a, multi-byte} x values {x, empty, multi-byte}, maps of <= 2 "
                "entries, enumerated by TLC with the views Context!ServerRead / ClientMerge force; each case is one call (inherited "
                "ping / get / void put in rotation) through the generated client and processor over in-memory, TCP adapter + simple "
                "server, HTTP and NATS x binary / compact / JSON (rotating; quick: every 3rd case); oracle: the handler saw exactly "
                "the user headers, cid and timeout, its context's op id is fresh (differs from the caller's and from every earlier "
                "one), the caller's response headers equal own-merged-with-handler's, the caller's op id is unchanged; pub/sub: the "
                "subscriber sees the publisher's headers, cid, timeout plus _topic_user. Raw reply op id / cid are checked by C14. "
                "non-trivial = some header map is non-empty; distinct by case")
    ctx.assumptions += ["user headers = names that do not start with '_'"]
    ctx.tlc_must_hold("Context", "c.cfg", timeout=1200, workers=NCPU, heap="10g", cfg_text=(
        'SPECIFICATION Spec\nCONSTANTS Ctxs = {1,2,3} Names = {"a","b"} Vals = {"x","y"} MaxSteps = 5\n'
        'INVARIANTS UniqueOps FreshHandlerOp\nPROPERTIES OneChanges CloneEqual\nCHECK_DEADLOCK FALSE\n'))
    ctx.tlc_must_hold("ContextCases", "cc.cfg", workers=1, timeout=900, heap="8g", cfg_text=(
        'SPECIFICATION Spec\nCONSTANTS Names = {"a","u8"} Vals = {"x","","u8v"} MaxEntries = 2\nCHECK_DEADLOCK FALSE\n'))
    cases_file = find(ctx, "context_cases.json")
    cases = json.load(open(cases_file))
    ctx.states += len(cases)
    ctx.transitions += len(cases)
    binary = ctx.go_build("ctxcheck")
    out = os.path.join(ctx.scratch, "ctx_e2e.json")
    stride = 1 if thorough else 3
    p = ctx.run_driver(binary, ["-mode", "e2e", "-in", cases_file, "-out", out, "-stride", str(stride), "-offset", str(ctx.seed % stride)], timeout=1800)
    if p.returncode != 0 or not os.path.exists(out):
        if "panic:" in p.stdout or "fatal error" in p.stdout:
            ctx.violation("e2e/process-died", p.stdout[-1500:], p.stdout[-3000:])
            return
        raise MachineryError("ctxcheck e2e failed: " + p.stdout[-2000:])
    res = json.load(open(out))
    for v in res.get("violations") or []:
        ctx.violation(v["key"], v["text"], v["replay"])
    for i, c in enumerate(cases):
        if (i + ctx.seed % stride) % stride == 0:
            ctx.case(key=c, nontrivial=bool(c["req"] or c["handler_sets"] or c["caller_had"]))
    ctx.traces_validated = res["runs"]
    ctx.extra["calls_and_publishes"] = res["runs"]
    for s in res.get("samples") or []:
        ctx.sample(s, limit=3)
    ctx.exhaustive = (stride == 1)


if __name__ == "__main__":
    main("C09", run, "model_checking")
