#!/usr/bin/env python3
"""C08 - publisher and subscriber agree on the topic, in every target language."""
import os, sys, json, re, shutil
sys.path.insert(0, os.path.join(os.path.dirname(os.path.abspath(__file__)), "..", "lib"))
from vlib import *


def find(ctx, name):
    for root, _, files in os.walk(ctx.scratch):
        if name in files:
            return os.path.join(root, name)


def prefix_text(toks):
    return ".".join(("{%s}" % t["name"]) if t["var"] else t["s"] for t in toks)


def files(out, pat):
    res = []
    for d, _, fs in os.walk(out):
        for f in fs:
            if re.search(pat, f):
                res.append(os.path.join(d, f))
    return sorted(res)


def read(fs):
    return "".join(open(f).read() for f in fs)


# ---- evaluators for the topic expressions the generators emit (no Java / Dart / Python runtime is installed) ----

def ev_java(src, vals):
    res = {}
    m = re.search(r'DELIMITER = "(.*)";', src)
    if not m:
        return res
    dl = m.group(1)
    for op, pre, tfmt in re.findall(r'String op = "(\w+)";\n\s*(?:final )?String prefix = (.*);\n\s*(?:final )?String topic = String.format\("(.*)", prefix, DELIMITER, op\);', src):
        mm = re.match(r'String.format\("(.*)", (.*)\)$', pre)
        if mm:
            p = mm.group(1)
            for a in [a.strip() for a in mm.group(2).split(',')]:
                p = p.replace('%s', vals[a], 1)
        else:
            p = pre.strip().strip('"')
        res[op] = tfmt.replace('%s', p, 1).replace('%s', dl, 1).replace('%s', op, 1)
    return res


def dart_interp(s, env):
    def rep(m):
        n = m.group(1) or m.group(2)
        return env[n]
    return re.sub(r'\$\{(\w+)\}|\$([A-Za-z_][A-Za-z0-9_]*)', rep, s)


def ev_dart(src, vals, dl):
    res = {}
    for op, pre, t in re.findall(r"var op = '(\w+)';\n\s*var prefix = '(.*)';\n\s*var topic = '(.*)';", src):
        env = dict(vals)
        p = dart_interp(pre, env)
        env.update(prefix=p, delimiter=dl, op=op)
        res[op] = dart_interp(t, env)
    return res


def ev_py(src, vals):
    res = {}
    m = re.search(r"_DELIMITER = '(.*)'", src)
    if not m:
        return res
    dl = m.group(1)
    for op, pre, t in re.findall(r"op = '(\w+)'\n\s*prefix = (.*)\n\s*topic = '(.*)'\.format\(prefix, self\._DELIMITER, op\)", src):
        mm = re.match(r"'(.*)'\.format\((.*)\)$", pre)
        if mm:
            p = mm.group(1)
            for a in [a.strip() for a in mm.group(2).split(',')]:
                p = p.replace('{}', vals[a], 1)
        else:
            p = pre.strip().strip("'")
        res[op] = t.replace('{}', p, 1).replace('{}', dl, 1).replace('{}', op, 1)
    return res


GO_MAIN_HEAD = '''package main

import (
	"encoding/json"
	"fmt"
	"os"

	frugal "github.com/Workiva/frugal/lib/go"
	"github.com/apache/thrift/lib/go/thrift"
%s
	"verifharness/internal/rig"
)

type recPub struct{ topics *[]string }

func (r recPub) Open() error               { return nil }
func (r recPub) Close() error              { return nil }
func (r recPub) IsOpen() bool              { return true }
func (r recPub) GetPublishSizeLimit() uint { return 0 }
func (r recPub) Publish(topic string, b []byte) error {
	*r.topics = append(*r.topics, topic)
	return nil
}

type recPubF struct{ topics *[]string }

func (r recPubF) GetTransport() frugal.FPublisherTransport { return recPub{r.topics} }

type recSub struct{ topics *[]string }

func (r recSub) Subscribe(topic string, cb frugal.FAsyncCallback) error {
	*r.topics = append(*r.topics, topic)
	return nil
}
func (r recSub) Unsubscribe() error { return nil }
func (r recSub) IsSubscribed() bool { return true }
func (r recSub) Remove() error      { return nil }

type recSubF struct{ topics *[]string }

func (r recSubF) GetTransport() frugal.FSubscriberTransport { return recSub{r.topics} }

var _ = thrift.STRING

func emit(prog int, side, op string, vi int, topics []string) {
	b, _ := json.Marshal(map[string]interface{}{"prog": prog, "side": side, "op": op, "vals": vi, "topics": topics})
	fmt.Println(string(b))
}

func main() {
	pf := rig.ProtocolFactory("binary")
	_ = os.Args
'''


def run(ctx):
    thorough = ctx.tier == "thorough"
    ctx.rule = ("cases enumerated by TLC from Topic.tla: scope names {Capitalised, lower-case, snake_case, single letter} x 2 operation "
                "names x prefixes with 0..3 variables in every position (quick 5, thorough 8 shapes) x -delim {'.', ':'} (thorough + '/', "
                "'-') x variable values {plain, empty / containing '.' and ':'}; for Go the generated publisher and subscriber are "
                "EXECUTED with recording transports (the topic handed to Publish / Subscribe); for Java, Dart and the three Python "
                "targets the op / prefix / topic expressions are extracted from the emitted source and evaluated by small evaluators "
                "(String.format, Dart interpolation, str.format); oracle: publisher topic = subscriber topic = the specification's "
                "string, in every language. non-trivial = prefix with a variable or a non-default delimiter or a non-capitalised scope "
                "name; distinct by (target, side, case)")
    ctx.assumptions += ["the scope name appears in the topic with its first letter upper-cased (Go / Java / Dart and the README example)",
                        "no Dart SDK, Java libraries or Python thrift package are installed: those targets are checked on the emitted "
                        "expressions, not by running them", "the vanilla Python target generates only a publisher"]
    scope = "thorough" if thorough else "quick"
    ctx.tlc_must_hold("Topic", "t.cfg", workers=1, timeout=600,
                      cfg_text='SPECIFICATION Spec\nCONSTANTS Scope = "%s"\nCHECK_DEADLOCK FALSE\n' % scope)
    cases = json.load(open(find(ctx, "topic_cases.json")))
    ctx.states += len(cases)
    ctx.transitions += len(cases)
    # group by program
    progs = {}
    for c in cases:
        key = (c["scope"], prefix_text(c["prefix"]), c["delim"])
        progs.setdefault(key, []).append(c)
    frugal = ctx.frugal_bin()
    h = ctx.harness()
    work = os.path.join(ctx.scratch, "topic")
    os.makedirs(work)
    imports, body = [], []
    plist = sorted(progs)
    valsets = []
    for c in cases:
        if c["vals"] not in valsets:
            valsets.append(c["vals"])
    results = []   # (target, side, prog index, op, vals index, topic)
    for pi, key in enumerate(plist):
        sc, pre, dl = key
        idl = os.path.join(work, "p%d.frugal" % pi)
        text = "namespace go tp%d\nstruct Ev { 1: i32 x }\nscope %s%s {\n  Cr: Ev,\n  cnt: i32\n}\n" % (pi, sc, (" prefix " + pre) if pre else "")
        open(idl, "w").write(text)
        # ---- Go: generate into the harness copy, to be executed ----
        sh([frugal, "-gen", "go:package_prefix=verifharness/gen/", "-delim", dl, "-out", os.path.join(h, "gen"), idl], cwd=work, timeout=120)
        gsrc = read(files(os.path.join(h, "gen", "tp%d" % pi), r"_scope\.go$"))
        mp = re.search(r"func New(\w+)Publisher\(", gsrc)
        ms = re.search(r"func New(\w+)Subscriber\(", gsrc)
        if not mp or not ms:
            raise MachineryError("cannot find generated constructors for program %d" % pi)
        imports.append('\ttp%d "verifharness/gen/tp%d"' % (pi, pi))
        nvars = pre.count("{")
        varnames = re.findall(r"\{(\w+)\}", pre)
        for vi, vs in enumerate(valsets):
            args = "".join('%s, ' % json.dumps(vs[v]) for v in varnames)
            body.append('\t{ var t []string; p := tp%d.New%sPublisher(frugal.NewFScopeProvider(recPubF{&t}, recSubF{&t}, pf)); p.PublishCr(frugal.NewFContext(""), %s&tp%d.Ev{}); emit(%d, "pub", "Cr", %d, t) }'
                        % (pi, mp.group(1), args, pi, pi, vi))
            body.append('\t{ var t []string; p := tp%d.New%sPublisher(frugal.NewFScopeProvider(recPubF{&t}, recSubF{&t}, pf)); p.Publishcnt(frugal.NewFContext(""), %s1); emit(%d, "pub", "cnt", %d, t) }'
                        % (pi, mp.group(1), args, pi, vi))
            body.append('\t{ var t []string; s := tp%d.New%sSubscriber(frugal.NewFScopeProvider(recPubF{&t}, recSubF{&t}, pf)); s.SubscribeCr(%sfunc(frugal.FContext, *tp%d.Ev) {}); emit(%d, "sub", "Cr", %d, t) }'
                        % (pi, ms.group(1), args, pi, pi, vi))
            body.append('\t{ var t []string; s := tp%d.New%sSubscriber(frugal.NewFScopeProvider(recPubF{&t}, recSubF{&t}, pf)); s.Subscribecnt(%sfunc(frugal.FContext, int32) {}); emit(%d, "sub", "cnt", %d, t) }'
                        % (pi, ms.group(1), args, pi, vi))
        # ---- other targets: extract and evaluate ----
        for tgt, name in (("java", "java"), ("dart", "dart"), ("py", "py"), ("py:asyncio", "pyaio"), ("py:tornado", "pytor")):
            out = os.path.join(work, "o_%s_%d" % (name, pi))
            p = sh([frugal, "-gen", tgt, "-delim", dl, "-out", out, idl], cwd=work, timeout=120, check=False)
            if p.returncode != 0:
                ctx.violation("%s/compile-failed" % name, "frugal -gen %s failed on scope %r prefix %r: %s" % (tgt, sc, pre, p.stdout[-300:]), text)
                continue
            for vi, vs in enumerate(valsets):
                if name == "java":
                    got = {"pub": ev_java(read(files(out, r"Publisher\.java$")), vs), "sub": ev_java(read(files(out, r"Subscriber\.java$")), vs)}
                elif name == "dart":
                    dsrc = read(files(out, r"_scope\.dart$"))
                    m = re.search(r"const String delimiter = '(.*)';", dsrc)
                    d0 = m.group(1) if m else "?"
                    i = dsrc.find("Subscriber {")
                    got = {"pub": ev_dart(dsrc[:i], vs, d0), "sub": ev_dart(dsrc[i:], vs, d0)}
                else:
                    got = {"pub": ev_py(read(files(out, r"publisher\.py$")), vs)}
                    if name != "py":
                        got["sub"] = ev_py(read(files(out, r"subscriber\.py$")), vs)
                for side, m in got.items():
                    for op in ("Cr", "cnt"):
                        results.append((name, side, pi, op, vi, m.get(op)))
            shutil.rmtree(out, ignore_errors=True)
    # ---- build and run the Go driver ----
    os.makedirs(os.path.join(h, "topicrun"), exist_ok=True)
    with open(os.path.join(h, "topicrun", "main.go"), "w") as fh:
        fh.write(GO_MAIN_HEAD % "\n".join(imports) + "\n".join(body) + "\n}\n")
    binary = ctx.go_build("topicrun")
    p = ctx.run_driver(binary, [], timeout=600)
    if p.returncode != 0:
        if "panic:" in p.stdout:
            ctx.violation("go/generated-code-panicked", p.stdout[-1500:], p.stdout[-3000:])
        else:
            raise MachineryError("topicrun failed: " + p.stdout[-2000:])
    for l in p.stdout.splitlines():
        if l.startswith("{"):
            o = json.loads(l)
            t = o["topics"]
            results.append(("go", o["side"], o["prog"], o["op"], o["vals"], t[0] if t and len(t) == 1 else (None if not t else "|".join(t))))
    # ---- compare with the specification ----
    want = {}
    for c in cases:
        key = (c["scope"], prefix_text(c["prefix"]), c["delim"])
        want[(plist.index(key), c["op"], valsets.index(c["vals"]))] = c
    seen_keys = set()
    by_case = {}
    for tgt, side, pi, op, vi, topic in results:
        c = want.get((pi, op, vi))
        if c is None:
            continue
        sc, pre, dl = plist[pi]
        nontrivial = ("{" in pre) or dl != "." or not sc[0].isupper()
        ctx.case(key=[tgt, side, pi, op, vi], nontrivial=nontrivial)
        by_case.setdefault((pi, op, vi), {})[(tgt, side)] = topic
        if topic != c["want"]:
            cls = []
            if dl != ".":
                cls.append("non-default-delimiter")
            if not sc[0].isupper():
                cls.append("lower-case-scope-name")
            if "{" in pre:
                cls.append("prefix-variables")
            key = "%s/%s/%s" % (tgt, side, "+".join(cls) or "plain")
            nkey = sum(1 for v in ctx.violations if v["key"] == key)
            if nkey < 2:
                ctx.violation(key, "%s %s of scope %r (prefix %r, -delim %r), operation %s, values %s: topic %r, the specification says %r"
                              % (tgt, "publisher" if side == "pub" else "subscriber", sc, pre, dl, op, c["vals"], topic, c["want"]),
                              dict(target=tgt, side=side, case=c, got=topic))
            seen_keys.add(key)
    # publisher = subscriber within each language
    for k, m in by_case.items():
        for tgt in set(t for t, _ in m):
            if (tgt, "pub") in m and (tgt, "sub") in m and m[(tgt, "pub")] != m[(tgt, "sub")]:
                c = want[k]
                ctx.violation("%s/publisher-subscriber-disagree" % tgt, "%s: publisher topic %r, subscriber topic %r for %s" % (tgt, m[(tgt, "pub")], m[(tgt, "sub")], c),
                              dict(target=tgt, case=c))
    ctx.traces_validated = len(results)
    ctx.extra["programs"] = len(plist)
    ctx.extra["topic_strings_checked"] = len(results)
    ctx.extra["targets"] = sorted(set(r[0] for r in results))
    for c in cases[:1] + cases[-2:]:
        ctx.sample(c)
    ctx.exhaustive = True


if __name__ == "__main__":
    main("C08", run, "exploration")
