#!/usr/bin/env python3
"""C10 - the parser represents every declaration exactly and accepts all Thrift."""
import os, sys, json
sys.path.insert(0, os.path.join(os.path.dirname(os.path.abspath(__file__)), "..", "lib"))
from vlib import *


def idl_cfg(maxdecls, tricky, emit_at, constraint=False, focus="all", hard="none"):
    return ("SPECIFICATION Spec\nCONSTANTS MaxDecls = %d Tricky = %s EmitAt = %d WithBreaks = FALSE Focus = \"%s\" Hard = \"%s\"\nINVARIANTS AlwaysValid Emit\n%sCHECK_DEADLOCK FALSE\n"
            % (maxdecls, tricky, emit_at, focus, hard, "CONSTRAINT Bounded\n" if constraint else ""))


def progs_of(r):
    out, seen = [], set()
    for s in r.printed:
        if s.startswith("PROG ") and s not in seen:
            seen.add(s)
            out.append(s[5:])
    return out


def run(ctx):
    thorough = ctx.tier == "thorough"
    ctx.rule = ("programs = well-formed abstract IDL programs reached by declaration-adding actions of IDL.tla (namespaces, include of "
                "a second file, typedefs, enums with explicit / implicit / out-of-order numbers, constants (int, double, bool, string, "
                "list, map, enum value), structs / unions / exceptions with fields of every requiredness, defaults and an annotation, "
                "services with extends / oneway / arguments / throws, scopes with prefixes and variables), identifier pools with and "
                "without names that start with keywords; all programs after 1 (thorough 2) steps exhaustively plus the successors along "
                "random walks of 14 (thorough 22) steps, plus, one family of declarations at a time (enums with their values; scopes with prefixes and operations; typedefs over enums; uses of a two-level typedef chain over an enum as field, default Enum.VALUE, argument, result, operation; a constant or field default of every type of the pool - base types incl. i8, containers, structs, unions, exceptions, enums, typedefs, types of the included file - with every literal of IDL!Lits), every program reachable in 4 / 2 / 2 / 1 / 1 (thorough 5 / 3 / 3 / 1 / 1) steps; each rendered in 6 lexical styles (the first 200 in all, the rest in 2): "
                "',' / ';' / no separators, '//' '#' inline and multi-line '/* */' comments, both quote styles, blank lines, and "
                "Thrift-style declarations on one line; parsed by parser.ParseFrugal and compared with the abstract program (enum "
                "numbering per Thrift, union members optional). non-trivial = program with >= 3 declarations; distinct = distinct programs")
    ctx.assumptions += ["'all syntactically valid Thrift' is reached only through this model's vocabulary (no senum, cpp_include, xsd_*, hex "
                        "literals, fields without ids, negative explicit enum numbers)",
                        "the renderer from abstract program to text is trusted; declaration order across struct / exception / union and among "
                        "scopes is not compared (the parser keeps separate lists and sorts scopes)"]
    progs = []
    for tricky in ("FALSE", "TRUE"):
        r = ctx.tlc_must_hold("IDL", "i.cfg", cfg_text=idl_cfg(2, tricky, 2 if thorough else 1, constraint=True), workers=NCPU, timeout=2400, heap="10g")
        progs += progs_of(r)
        old = ctx.seed
        for k in range(3 if thorough else 1):
            ctx.seed = old * 13 + k + (100 if tricky == "TRUE" else 0)
            d = 22 if thorough else 14
            r = ctx.tlc("IDL", "i.cfg", cfg_text=idl_cfg(2, tricky, d), workers=1, simulate=8 if thorough else 4, depth=d, timeout=1200, count=False)
            if not r.ok:
                ctx.seed = old
                raise MachineryError("IDL simulation failed: " + r.out[-1500:])
            progs += progs_of(r)
        ctx.seed = old
    # one family of declarations at a time, exhaustively and several steps deep (every state is a program)
    for focus, depth in (("enums", 5 if thorough else 4), ("scopes", 3 if thorough else 2), ("typedefs", 3 if thorough else 2), ("enumrefs", 1), ("annotations", 4), ("consts", 1)):
        r = ctx.tlc_must_hold("IDL", "i.cfg", cfg_text=idl_cfg(2, "FALSE", depth, constraint=True, focus=focus), workers=NCPU, timeout=2400, heap="10g")
        fp = progs_of(r)
        ctx.extra["focus_" + focus] = len(fp)
        progs += fp
    # the hard families of C11 are hard for the generators, not for the parser: a few walks ending in each of them
    for hard in ("keywords", "container-keys", "nested-typedef"):
        r = ctx.tlc("IDL", "i.cfg", cfg_text=idl_cfg(2, "FALSE", 8, hard=hard), workers=1, simulate=2, depth=8, timeout=600, count=False)
        if not r.ok:
            raise MachineryError("IDL simulation (%s) failed: %s" % (hard, r.out[-1500:]))
        hp = [q for q in progs_of(r) if json.loads(q)["broken"] == "hard:" + hard]
        progs += hp[:40]
        ctx.extra["hard_" + hard] = len(hp[:40])
    progs = list(dict.fromkeys(progs))
    inp = os.path.join(ctx.scratch, "idl_progs.ndjson")
    open(inp, "w").write("\n".join(progs) + "\n")
    binary = ctx.go_build("idlcheck")
    out = os.path.join(ctx.scratch, "idl_res.json")
    p = ctx.run_driver(binary, ["-in", inp, "-out", out], timeout=3000)
    if p.returncode != 0 or not os.path.exists(out):
        if "panic:" in p.stdout or "fatal error" in p.stdout:
            ctx.violation("parser-crashed", "the parser crashed: " + p.stdout[-1500:], p.stdout[-3000:])
            return
        raise MachineryError("idlcheck failed: " + p.stdout[-2500:])
    res = json.load(open(out))
    for v in res.get("violations") or []:
        ctx.violation(v["key"], v["text"] + " [%d case(s) of this kind]" % res["violation_counts"].get(v["key"], 1), v["replay"])
    for pr in progs:
        o = json.loads(pr)
        n = sum(len(o[k]) for k in ("typedefs", "enums", "consts", "structs", "services", "scopes"))
        ctx.case(key=pr, nontrivial=n >= 3)
    ctx.traces_validated = res["runs"]
    ctx.extra.update(dict(programs=res["programs"], parses=res["runs"], per_style=res["per_style"]))
    for s in res.get("samples") or []:
        ctx.sample(s, limit=2)
    ctx.exhaustive = False


if __name__ == "__main__":
    main("C10", run, "exploration")
