#!/usr/bin/env python3
"""C13 - every call returns within its FContext timeout."""
import os, sys
sys.path.insert(0, os.path.dirname(os.path.abspath(__file__)))
from muxlib import *

PROPS = ("C13",)


def run(ctx):
    thorough = ctx.tier == "thorough"
    ctx.rule = ("(a) TLC checks Returns (started ~> returned under fairness of the caller only), NoLeak and "
                "TimeoutMeansExpired on ClientMux for every peer / send-goroutine behaviour; (b) random walks that contain "
                "SendStall / SendFail / Expire / Timeout steps are replayed through the real transports and the recorded events "
                "validated; (c) wall-clock matrix timeouts x {silent, late, early, blocked write, blocked flush} x "
                "{Request, Oneway} x {adapter, NATS, HTTP}: elapsed <= timeout + 250 ms, TIMED_OUT iff no response in time, "
                "registry empty afterwards. non-trivial = the peer misbehaves (everything but 'early'); distinct by case tuple")
    ctx.assumptions += ["scheduling allowance 250 ms (measured overshoot on this box < 2 ms)",
                        "positive timeouts in whole milliseconds",
                        "the wall-clock bound itself is sampled over the matrix, not proved"]
    model_check(ctx)
    binary = ctx.go_build("mux")
    tos = "20,50,100,250,1000,2000" if thorough else "20,50,100,250"
    res = run_driver_json(ctx, binary, ["-mode", "timing", "-timeouts", tos, "-trace", os.path.join(ctx.scratch, "t.ndjson")], timeout=1200)
    collect(ctx, res, PROPS, "timing")
    for row in res["timing"]:
        ctx.case(key=[row["transport"], row["call"], row["peer"], row["timeout_ms"]], nontrivial=row["peer"] != "early")
    ctx.extra["timing_rows"] = len(res["timing"])
    ctx.extra["max_overshoot_ms"] = round(max([r["elapsed_ms"] - r["timeout_ms"] for r in res["timing"] if r["outcome"] == "TIMED_OUT"] or [0]), 2)
    for row in res["timing"][:3]:
        ctx.sample(row)
    for variant in ("adapter", "nats"):
        behs = [b for b in behaviours(ctx, variant, 600 if thorough else 120, 30, callers=3, frames=6, seed_off=13)
                if any(k in b for k in ("SendStall", "SendFail", "Timeout"))]
        behs = behs[:300 if thorough else 50]
        if behs:
            ctx.sample(dict(kind="tlc-behaviour", variant=variant, steps=json.loads(behs[0])))
        res = replay_and_validate(ctx, binary, variant, behs, PROPS, "sim")
        ctx.extra.setdefault("replay", {})[variant] = dict(behaviours=res["runs"], steered_exactly=res["steered_exactly"], diverged=res["diverged"])
    ctx.exhaustive = False


if __name__ == "__main__":
    main("C13", run, "model_checking")
