#!/usr/bin/env python3
"""C18 - the IDL audit flags every breaking change and nothing else."""
import os, sys, json
sys.path.insert(0, os.path.join(os.path.dirname(os.path.abspath(__file__)), "..", "lib"))
from vlib import *


def a_cfg(depth, only_compat):
    return ("SPECIFICATION Spec\nCONSTANTS MaxDepth = %d OnlyCompatible = %s\nINVARIANTS Emit\nCHECK_DEADLOCK FALSE\n" % (depth, only_compat))


def cases_of(r):
    out, seen = [], set()
    for s in r.printed:
        if s.startswith("CASE ") and s not in seen:
            seen.add(s)
            out.append(s[5:])
    return out


def run(ctx):
    thorough = ctx.tier == "thorough"
    ctx.rule = ("pairs (old, new): old = a base program (typedef chain, enum, struct / union / exception with required / optional / "
                "default fields and nested containers through typedefs, service with extends / oneway / throws, scope with a "
                "3-token prefix); new = every program reachable by catalogue edits (retype / requiredness / remove / rename / add "
                "field; remove struct; retarget typedef; remove / rename / add enum value; remove / add method; toggle oneway; change "
                "return type; drop / add throws; retype argument; change extends; five prefix changes; remove / retype / add "
                "operation) applied at every applicable site: all single edits, quick: the successors along 15 random 3-edit walks (about 5,000 programs) + all compatible-"
                "only walks of depth 3; thorough: all double edits + compatible-only walks of depth 4; verdict of the real "
                "parser.Auditor (in process) and of `frugal -audit` (sample) vs Breaking(old, new). non-trivial = new differs from "
                "old; distinct = distinct new programs")
    ctx.assumptions += ["the catalogue is the one in audit.go's rule comments: removing an optional field / union member / thrown exception is "
                        "compatible; an exception-set change on a void method is breaking between empty and non-empty",
                        "both programs are well-formed (the generator only emits programs that parse)"]
    allcases = []
    r = ctx.tlc_must_hold("Audit", "a.cfg", cfg_text=a_cfg(1, "FALSE"), workers=1, timeout=600)
    allcases += cases_of(r)
    if thorough:
        r = ctx.tlc_must_hold("Audit", "a.cfg", cfg_text=a_cfg(2, "FALSE"), workers=4, timeout=3000, heap="12g")
        allcases += cases_of(r)
        r = ctx.tlc_must_hold("Audit", "a.cfg", cfg_text=a_cfg(4, "TRUE"), workers=8, timeout=3000, heap="12g")
        allcases += cases_of(r)
    else:
        r = ctx.tlc("Audit", "a.cfg", cfg_text=a_cfg(3, "FALSE"), workers=1, simulate=15, depth=4, timeout=900, count=False)
        if not r.ok:
            raise MachineryError("Audit simulation failed: " + r.out[-1500:])
        allcases += cases_of(r)
        r = ctx.tlc_must_hold("Audit", "a.cfg", cfg_text=a_cfg(3, "TRUE"), workers=4, timeout=1200, heap="8g")
        allcases += cases_of(r)
    seen, uniq = set(), []
    for c in allcases:
        o = json.loads(c)
        k = json.dumps(o["prog"], sort_keys=True)
        if k in seen:
            continue
        seen.add(k)
        uniq.append(c)
    # the base program first
    uniq.sort(key=lambda c: json.loads(c)["depth"])
    inp = os.path.join(ctx.scratch, "audit_cases.ndjson")
    open(inp, "w").write("\n".join(uniq) + "\n")
    binary = ctx.go_build("auditcheck")
    out = os.path.join(ctx.scratch, "audit_res.json")
    p = ctx.run_driver(binary, ["-in", inp, "-out", out, "-frugal", ctx.frugal_bin(), "-cli-sample", "150" if thorough else "40"], timeout=3000)
    if p.returncode != 0 or not os.path.exists(out):
        if "panic:" in p.stdout or "fatal error" in p.stdout:
            ctx.violation("auditor-crashed", "the auditor crashed: " + p.stdout[-1500:], p.stdout[-3000:])
            return
        raise MachineryError("auditcheck failed: " + p.stdout[-2500:])
    res = json.load(open(out))
    for v in res.get("violations") or []:
        ctx.violation(v["key"], v["text"], v["replay"])
    for c in uniq:
        o = json.loads(c)
        ctx.case(key=o["prog"], nontrivial=o["depth"] > 0)
    ctx.traces_validated = res["runs"]
    ctx.extra.update(dict(pairs=res["runs"], breaking=res["breaking"], compatible=res["compatible"], cli_runs=res["cli_runs"]))
    for s in res.get("samples") or []:
        ctx.sample(s)
    ctx.exhaustive = thorough


if __name__ == "__main__":
    main("C18", run, "model_checking")
