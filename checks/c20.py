#!/usr/bin/env python3
"""C20 - NATS server shutdown drains: accepted requests answered, none lost or duplicated."""
import os, sys, json, glob
sys.path.insert(0, os.path.join(os.path.dirname(os.path.abspath(__file__)), "..", "lib"))
from vlib import *


def ns_cfg(n, workers, qlen, early="FALSE", handoff="blocking"):
    return ('SPECIFICATION Spec\nCONSTANTS Msgs = {%s} Workers = {%s} QLen = %d CloseEarly = %s StopHandoff = "%s"\n'
            'INVARIANTS AtMostOnce Drained NoLate NoPanic\nPROPERTIES Termination\nCHECK_DEADLOCK FALSE\n'
            % (",".join(str(i) for i in range(1, n + 1)), ",".join(str(i) for i in range(1, workers + 1)), qlen, early, handoff))


def trace_cfg(workers, qlen):
    return ('SPECIFICATION TSpec\nCONSTANTS Msgs = {1,2,3,4,5,6,7,8,9,10,11,12} Workers = {%s} QLen = %d CloseEarly = FALSE StopHandoff = "blocking"\n'
            'INVARIANTS AtMostOnce Drained NoLate NoPanic\nCONSTRAINT HighWater\nPOSTCONDITION Accepted\nCHECK_DEADLOCK FALSE\n'
            % (",".join(str(i) for i in range(1, workers + 1)), qlen))


def find(ctx, name):
    for root, _, files in os.walk(ctx.scratch):
        if name in files:
            return os.path.join(root, name)


def run(ctx):
    thorough = ctx.tier == "thorough"
    ctx.rule = ("configurations enumerated by TLC: workers 1..3 x queue length 0..2 x burst 0..B (quick 5, thorough 8) x position "
                "of Stop in the burst x handler pattern {fast, held until Stop was called (queue full, callback blocked), slow, in the handler for eight high watermarks (10 ms) while the server shuts down} + 2 "
                "requests after Stop returned; each runs the real fNatsServer on an embedded nats-server with a stub processor; "
                "oracle: handler count = 1 and exactly one reply observable after Serve returned for every request flushed before "
                "Stop was called, count = 0 for requests published after Stop returned, Stop and Serve return within 5 s; the event "
                "log (pub, handler start/end, Stop call/return, Serve return, replies seen) is validated by TLC against NatsServer "
                "with nats.go internals as silent steps. non-trivial = burst > 0; distinct by configuration")
    ctx.assumptions += ["nats.go v1.33.1 contract as written into NatsServer.tla (Drain keeps callbacks running, Barrier after earlier callbacks)",
                        "'received before Stop was called' = published and flushed by the publisher before the call (FIFO per connection + Drain's flush)",
                        "requests published while Stop is in progress are neither promised nor forbidden"]
    ctx.tlc_must_hold("NatsServer", "n.cfg", cfg_text=ns_cfg(4, 2, 1), timeout=900)
    ctx.tlc_must_hold("NatsServer", "n.cfg", cfg_text=ns_cfg(4, 1, 0), timeout=900)
    ctx.tlc_must_hold("NatsServer", "n.cfg", cfg_text=ns_cfg(3, 2, 2), timeout=900)
    ctx.tlc("NatsServer", "n.cfg", cfg_text=ns_cfg(4, 2, 1, "TRUE"), expect_violation="NoPanic", count=False, timeout=600)
    # named deviation: a Stop that does not wait for Serve to receive the stop request loses it
    ctx.tlc("NatsServer", "n.cfg", cfg_text=ns_cfg(2, 1, 1, "FALSE", "nonblocking"), expect_violation="NoLate", count=False, timeout=600)
    if thorough:
        ctx.tlc_must_hold("NatsServer", "n.cfg", cfg_text=ns_cfg(5, 2, 1), timeout=3000, workers=NCPU, heap="12g")
        ctx.tlc_must_hold("NatsServer", "n.cfg", cfg_text=ns_cfg(4, 3, 0), timeout=3000, workers=NCPU, heap="12g")
    B = 8 if thorough else 5
    ctx.tlc_must_hold("NatsServerCases", "c.cfg", workers=1, timeout=300,
                      cfg_text="SPECIFICATION Spec\nCONSTANTS MaxWorkers = 3 MaxQLen = 2 MaxBurst = %d\nCHECK_DEADLOCK FALSE\n" % B)
    cases_file = find(ctx, "natssrv_cases.json")
    cases = json.load(open(cases_file))
    ctx.states += len(cases)
    ctx.transitions += len(cases)
    binary = ctx.go_build("natssrv")
    tdir = os.path.join(ctx.scratch, "ntr")
    os.makedirs(tdir)
    out = os.path.join(ctx.scratch, "ns_res.json")
    p = ctx.run_driver(binary, ["-in", cases_file, "-out", out, "-tracedir", tdir], timeout=3000)
    if p.returncode != 0 or not os.path.exists(out):
        full = p.stdout
        if "panic:" in full or "fatal error" in full:
            import re
            m = re.search(r"^(panic: .*|fatal error: .*)$", full, re.M)
            ctx.violation("server-process-died", "the server process died: %s" % (m.group(1) if m else full[-800:]), full[-3000:])
            return
        raise MachineryError("natssrv driver failed: " + full[-2000:])
    res = json.load(open(out))
    for v in res.get("violations") or []:
        ctx.violation(v["key"], v["text"], v["replay"])
    for c in cases:
        ctx.case(key=c, nontrivial=c["burst"] > 0)
    ctx.extra["runs"] = res["runs"]
    ctx.extra["requests_published"] = res["requests"]
    for s in res.get("samples") or []:
        ctx.sample(s, limit=2)
    if not res.get("violations"):
        for f in sorted(glob.glob(os.path.join(tdir, "natssrv_w*_q*.ndjson"))):
            w, q = [int(x[1:]) for x in os.path.basename(f)[len("natssrv_"):-len(".ndjson")].split("_")]
            txt = open(f).read()
            if not txt.strip():
                continue
            r = ctx.tlc("NatsServerTrace", "t.cfg", cfg_text=trace_cfg(w, q), workers=1, timeout=1800, heap="10g",
                        extra_files={"natssrv_trace.ndjson": txt}, dfs=False)
            if r.ok:
                ctx.traces_validated += txt.count('"reset"')
            else:
                at = [s for s in r.printed if s.startswith("REJECTED-AT")]
                lines = txt.splitlines()
                k = int(at[0].split()[1]) if at else 1
                what = r.violated if not at else "rejected at event %d" % k
                ctx.violation("trace/w%d_q%d" % (w, q), "workers=%d queue=%d: the recorded events are not a behaviour of NatsServer (%s): %s"
                              % (w, q, what, lines[max(0, k - 8):k + 1]), dict(excerpt=lines[max(0, k - 40):k + 2]))
    ctx.exhaustive = True


if __name__ == "__main__":
    main("C20", run, "model_checking")
