#!/usr/bin/env python3
"""C01 - under multiplexing every RPC gets exactly its own response."""
import os, sys
sys.path.insert(0, os.path.dirname(os.path.abspath(__file__)))
from muxlib import *

PROPS = ("C01",)


def run(ctx):
    thorough = ctx.tier == "thorough"
    ctx.rule = ("behaviours = random walks of ClientMuxGen (TLC -simulate, seed from VERIF_SEED) replayed through the real "
                "adapter and NATS client transports via the verif gates, plus randomized concurrent sessions (1..16 callers, "
                "permuted / duplicated / late / unknown / 503 responses); non-trivial = contains a duplicate, late, unknown-id "
                "or 503 frame, a send failure/stall or a timeout; distinct by the JSON of the behaviour / (seed, session)")
    ctx.assumptions += ["each request uses its own FContext (op ids are per FContext)",
                        "nats.go and the embedded nats-server deliver messages per subject in publish order",
                        "hook events reg.add/del/hit/miss are emitted under the registry lock (sequence = linearization order)"]
    model_check(ctx)
    if thorough:
        anti_vacuity(ctx)
    binary = ctx.go_build("mux")
    nb = 400 if thorough else 60
    last_trace = None
    for variant in ("adapter", "nats"):
        behs = behaviours(ctx, variant, nb, 36 if thorough else 30, callers=3, frames=8 if not thorough else 10)
        for b in behs[:2]:
            ctx.sample(dict(kind="tlc-behaviour", variant=variant, steps=json.loads(b)))
        res = replay_and_validate(ctx, binary, variant, behs, PROPS, "sim")
        ctx.extra.setdefault("replay", {})[variant] = dict(behaviours=res["runs"], steered_exactly=res["steered_exactly"],
                                                           diverged_followed_reality=res["diverged"], steps=res["steps"])
        rr = random_and_validate(ctx, binary, variant, 300 if thorough else 40, 16, PROPS)
        ctx.extra.setdefault("random_sessions", {})[variant] = rr["runs"]
        last_trace = os.path.join(ctx.scratch, "rtrace_%s_0.ndjson" % variant)
    if last_trace:
        binding_selftest(ctx, last_trace)
    ctx.exhaustive = False


if __name__ == "__main__":
    main("C01", run, "model_checking")
