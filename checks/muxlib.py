"""Shared pipeline for the ClientMux family (C01, C06, C13)."""
import json, os, sys
sys.path.insert(0, os.path.join(os.path.dirname(os.path.abspath(__file__)), "..", "lib"))
from vlib import *


def gen_cfg(variant, callers, frames, depth):
    return ('SPECIFICATION GSpec\nCONSTANTS Callers = {%s} Unknown = {9} MaxFrames = %d Cap = 1 '
            'Dispatch = "nonblocking" Variant = "%s" Depth = %d\nINVARIANTS Emit\nCHECK_DEADLOCK FALSE\n'
            % (",".join(str(i) for i in range(1, callers + 1)), frames, variant, depth))


def behaviours(ctx, variant, num, depth, callers=3, frames=8, seed_off=0):
    """TLC -simulate random walks of ClientMuxGen -> list of JSON strings (deduplicated)."""
    old = ctx.seed
    ctx.seed = (old * 7919 + seed_off) % (2 ** 31)
    try:
        r = ctx.tlc("ClientMuxGen", "gen.cfg", workers=1, simulate=num, depth=depth, timeout=300,
                    cfg_text=gen_cfg(variant, callers, frames, depth), count=False)
    finally:
        ctx.seed = old
    seen, out = set(), []
    for s in r.printed:
        if s.startswith("B "):
            b = s[2:]
            if b not in seen:
                seen.add(b)
                out.append(b)
    # keep only maximal behaviours (Emit prints at >= Depth, possibly a prefix and its extension)
    return out


ADVERSARIAL = ("LookupMiss", "S503Hit", "S503Miss", "DeliverDrop", "SendFail", "SendStall", "Expire", "Timeout")


def nontrivial(beh_json):
    steps = json.loads(beh_json)
    acts = [s["a"] for s in steps]
    dup = len([a for a in acts if a == "LookupHit"]) > len(set(s["c"] for s in steps if s["a"] == "LookupHit"))
    return dup or any(a in ADVERSARIAL for a in acts)


def model_check(ctx, thorough_cfg=True):
    ctx.tlc_must_hold("ClientMux", "ClientMux_quick.cfg", timeout=600)
    ctx.tlc_must_hold("ClientMux", "ClientMux_nats.cfg", timeout=600)
    if ctx.tier == "thorough" and thorough_cfg:
        ctx.tlc_must_hold("ClientMux", "ClientMux_thorough.cfg", timeout=1500, workers=NCPU)


def anti_vacuity(ctx):
    # named deviations: the pinned blocking send and a send under the registry lock must violate C06
    ctx.tlc("ClientMux", "ClientMux_blocking.cfg", expect_violation="ReaderNeverBlocked", count=False, timeout=300)
    ctx.tlc("ClientMux", "ClientMux_locked.cfg", expect_violation="ReaderNeverBlocked", count=False, timeout=300)


def run_driver_json(ctx, binary, args, timeout=900):
    out = os.path.join(ctx.scratch, "res%d.json" % len(os.listdir(ctx.scratch)))
    p = ctx.run_driver(binary, args + ["-out", out], timeout=timeout)
    if p.returncode != 0 or not os.path.exists(out):
        raise MachineryError("mux driver failed (rc %s): %s" % (p.returncode, p.stdout[-3000:]))
    return json.load(open(out))


def validate_trace(ctx, trace_path, what):
    """TLC trace validation of an ndjson file produced by the driver. Returns (accepted, rejected_at, nevents)."""
    txt = open(trace_path).read()
    n = txt.count("\n")
    if n == 0:
        return True, None, 0
    r = ctx.tlc("ClientMuxTrace", "ClientMuxTrace.cfg", workers=1, timeout=900,
                extra_files={"mux_trace.ndjson": txt}, count=True, dfs=True)
    if r.ok:
        return True, None, n
    if r.violated in ("postcondition",) or any(s.startswith("REJECTED-AT") for s in r.printed):
        at = [s for s in r.printed if s.startswith("REJECTED-AT")]
        return False, (int(at[0].split()[1]) if at else None), n
    # an invariant of the property-level spec failed on the recorded trace
    return False, r.violated, n


def collect(ctx, res, props, what):
    """Fold driver results into ctx: violations of the listed properties only."""
    for v in res.get("violations") or []:
        if any(p in props for p in v["prop"].split(",")):
            ctx.violation("%s/%s/%s" % (what, res["variant"], v["key"]), v["text"], v["replay"])
        else:
            ctx.note("driver also reported %s %s (belongs to another property's check): %s" % (v["prop"], v["key"], v["text"][:160]))
    for n in res.get("notes") or []:
        ctx.note(n)


def replay_and_validate(ctx, binary, variant, behs, props, tag):
    inp = os.path.join(ctx.scratch, "beh_%s_%s.ndjson" % (variant, tag))
    with open(inp, "w") as fh:
        fh.write("\n".join(behs) + "\n")
    trace = os.path.join(ctx.scratch, "trace_%s_%s.ndjson" % (variant, tag))
    res = run_driver_json(ctx, binary, ["-mode", "replay", "-variant", variant, "-in", inp, "-trace", trace])
    collect(ctx, res, props, "replay")
    for b in behs:
        ctx.case(key=b, nontrivial=nontrivial(b))
    ok, at, n = validate_trace(ctx, trace, tag)
    if ok:
        ctx.traces_validated += res["runs"]
    else:
        lines = open(trace).read().splitlines()
        ctxl = lines[max(0, (at or 1) - 12):(at or 1) + 2] if isinstance(at, int) else lines[:20]
        ctx.violation("trace-rejected/%s/%s" % (variant, tag),
                      "recorded events of the real %s transport are not a behaviour of ClientMux (rejected at %s): %s"
                      % (variant, at, ctxl[-6:]), dict(trace_excerpt=ctxl, behaviours_file=tag))
    return res


def random_and_validate(ctx, binary, variant, n, callers, props, seed_off=0):
    trace = os.path.join(ctx.scratch, "rtrace_%s_%d.ndjson" % (variant, seed_off))
    res = run_driver_json(ctx, binary, ["-mode", "random", "-variant", variant, "-n", str(n), "-callers", str(callers),
                                        "-seed", str(ctx.seed * 31 + seed_off), "-trace", trace])
    collect(ctx, res, props, "random")
    for i in range(res["runs"]):
        ctx.case(key=[variant, ctx.seed, seed_off, i], nontrivial=True)
    ok, at, nev = validate_trace(ctx, trace, "random")
    if ok:
        ctx.traces_validated += res["runs"]
    else:
        lines = open(trace).read().splitlines()
        ctxl = lines[max(0, (at or 1) - 12):(at or 1) + 2] if isinstance(at, int) else lines[:20]
        ctx.violation("trace-rejected/random/%s" % variant,
                      "recorded events of a randomized %s session are not a behaviour of ClientMux (rejected at %s): %s"
                      % (variant, at, ctxl[-6:]), dict(trace_excerpt=ctxl, seed=ctx.seed, seed_off=seed_off))
    for s in res.get("samples") or []:
        ctx.sample(s)
    return res


def binding_selftest(ctx, trace_path):
    """Corrupt one recorded 'ret' field: the trace spec must reject it (the spec is bound to the code)."""
    lines = open(trace_path).read().splitlines()
    idx = [i for i, l in enumerate(lines) if '"ev":"ret"' in l and '"n":-' not in l]
    if not idx:
        return
    i = idx[len(idx) // 2]
    rec = json.loads(lines[i])
    rec["n"] = rec["n"] % 15 + 1 if rec["n"] % 15 + 1 != rec["n"] else 2
    lines[i] = json.dumps(rec, separators=(",", ":"))
    r = ctx.tlc("ClientMuxTrace", "ClientMuxTrace.cfg", workers=1, timeout=600, count=False, dfs=True,
                extra_files={"mux_trace.ndjson": "\n".join(lines) + "\n"})
    if r.ok:
        raise MachineryError("binding self-test: a corrupted trace (line %d) was accepted by ClientMuxTrace" % (i + 1))
    ctx.extra["binding_selftest"] = "corrupting the op id of one returned frame (trace line %d) makes TLC reject the trace" % (i + 1)
