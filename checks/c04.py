#!/usr/bin/env python3
"""C04 - FContext headers survive the wire unchanged in the documented v0 layout."""
import os, sys, json, subprocess
sys.path.insert(0, os.path.join(os.path.dirname(os.path.abspath(__file__)), "..", "lib"))
from vlib import *

PY2 = "/root/.pyenv/versions/2.7.18/bin/python"


def diagnose(rec):
    """Which codec disagrees (for a stable violation key only; the verdict is TLC's)."""
    want = sorted([tuple(map(tuple, p)) for p in rec["uniq"]])
    bad = []
    for k, r in rec["readers"].items():
        got = sorted([tuple(map(tuple, p)) for p in r["hdr"]])
        if r["err"] or got != want or r["rest"] != rec["payload"]:
            bad.append("reader:" + k)
    for k, w in rec["writers"].items():
        if len(w) != len(rec["bytes"]):
            bad.append("writer:" + k)
    return ",".join(sorted(bad)) or "layout-or-addHeaders"


def run(ctx):
    thorough = ctx.tier == "thorough"
    ctx.rule = ("cases = every header map with <= N entries (quick 2, thorough 3) over 5 names x 5 values (empty, ASCII, "
                "multi-byte UTF-8, _opid, 40 bytes) enumerated by TLC (which also checks Parse(Marshal(m) . payload) = "
                "(m, payload) on each) + random maps (0..50 entries, arbitrary bytes incl. invalid UTF-8, reserved names). Each is "
                "written by the real WriteRequestHeader / WriteResponseHeader and read back by the stream reader (io.Reader and "
                "TMemoryBuffer), ReadResponseHeader, getHeadersFromFrame, addHeadersToFrame, the Python runtime's _Headers codec "
                "(both directions, UTF-8 maps) and contrib/frame_parser.py; every record is a one-step trace TLC evaluates with the "
                "specification's own parser. non-trivial = map with >= 1 entry; distinct by record content")
    ctx.assumptions += ["pair order on the wire is not part of the contract (Go map iteration)",
                        "the Python codec handles text: only maps whose names and values are valid UTF-8 go through it",
                        "unmarshalFrame is an unused helper (test-only; it expects a length-prefixed payload) and is not a reader under test"]
    n = 3 if thorough else 2
    r = ctx.tlc_must_hold("WireCases", "wc.cfg", cfg_text="SPECIFICATION Spec\nCONSTANTS MaxEntries = %d\nCHECK_DEADLOCK FALSE\n" % n,
                          workers=1, timeout=900)
    tdir = os.path.join(ctx.scratch, "tlc%d" % len(ctx.tlc_runs))
    cases_file = None
    for root, _, files in os.walk(ctx.scratch):
        if "wire_cases.json" in files:
            cases_file = os.path.join(root, "wire_cases.json")
    if not cases_file:
        raise MachineryError("TLC did not write wire_cases.json")
    ncases = len(json.load(open(cases_file)))
    # TLC evaluated RoundTrip on every map: count them as checked states of the design
    ctx.states += ncases
    ctx.transitions += ncases
    binary = ctx.go_build("wirecheck")
    recs_path = os.path.join(ctx.scratch, "wire_recs.ndjson")
    p = ctx.run_driver(binary, ["-mode", "records", "-in", cases_file, "-random", str(3000 if thorough else 400),
                                "-seed", str(ctx.seed), "-out", recs_path], timeout=600)
    if p.returncode != 0:
        # the codec crashed on a well-formed map: that is a violation of C04, reported with the output
        ctx.violation("codec-crash", "the Go header codec crashed on a well-formed header map: " + p.stdout[-1500:], p.stdout[-3000:])
        return
    recs = [json.loads(l) for l in open(recs_path)]
    # ---- Python runtime codec and contrib/frame_parser.py ----
    def s(b):
        return bytes(b).decode("utf8")
    pyin = "\n".join(json.dumps(dict(id=r["id"], bytes=r["bytes"], payload=r["payload"],
                                     pairs=[[s(a), s(b)] for a, b in r["uniq"]])) for r in recs if r["utf8"]) + "\n"
    pr = sh(["python3", os.path.join(VERIF, "harness/py/hdr_codec.py"), REPO], input=pyin, timeout=600)
    pyres = {}
    for l in pr.stdout.splitlines():
        if l.startswith("{"):
            o = json.loads(l)
            pyres[o["id"]] = o
    def bp(pairs):
        return [[list(a.encode("utf8")), list(b.encode("utf8"))] for a, b in pairs]
    npy = 0
    for r in recs:
        o = pyres.get(r["id"])
        if r["utf8"] and o is None:
            raise MachineryError("python codec runner produced no result for record %d: %s" % (r["id"], pr.stdout[-500:]))
        if o is None:
            continue
        npy += 1
        if o["err"]:
            r["readers"]["python-_Headers._read"] = dict(hdr=[], rest=[], err=o["err"])
            continue
        r["readers"]["python-_Headers._read"] = dict(hdr=bp(o["read"]), rest=o["rest"], err="")
        r["readers"]["python-decode_from_frame"] = dict(hdr=bp(o["read_frame"]), rest=r["payload"], err="")
        r["writers"]["python-_write_to_bytearray"] = o["written"]
    n2 = 0
    if os.path.exists(PY2):
        p2 = sh([PY2, os.path.join(VERIF, "harness/py/frame_parser_run.py"), REPO],
                input="\n".join(json.dumps(dict(id=r["id"], bytes=r["bytes"], payload=r["payload"])) for r in recs) + "\n", timeout=600)
        for l in p2.stdout.splitlines():
            if l.startswith("{"):
                o = json.loads(l)
                r = recs[o["id"] - 1]
                r["readers"]["contrib-frame_parser.py"] = dict(hdr=o.get("read", []), rest=o.get("rest", []), err=o["err"])
                n2 += 1
    else:
        ctx.note("python 2.7 not found: contrib/frame_parser.py not exercised")
    ctx.extra["python_codec_records"] = npy
    ctx.extra["frame_parser_records"] = n2
    for r in recs:   # TLC's JSON reader has no null
        for rd in r["readers"].values():
            rd["hdr"] = rd.get("hdr") or []
            rd["rest"] = rd.get("rest") or []
        r["added"] = r.get("added") or []
        r["extra"] = r.get("extra") or []
    txt = "\n".join(json.dumps(r, separators=(",", ":")) for r in recs) + "\n"
    rv = ctx.tlc("WireRecs", "WireRecs.cfg", workers=1, timeout=1800, extra_files={"wire_recs.ndjson": txt}, heap="8g")
    if not rv.ok:
        raise MachineryError("WireRecs failed: " + rv.out[-2000:])
    bad = sorted(set(int(x.split()[1]) for x in rv.printed if x.startswith("BAD-RECORD")))
    byid = {r["id"]: r for r in recs}
    for i in bad[:20]:
        rec = byid[i]
        ctx.violation("record/" + diagnose(rec), "TLC: the recorded bytes / read-back of header map #%d do not satisfy Wire (%s); map has %d entries"
                      % (i, diagnose(rec), len(rec["uniq"])), rec)
    for r in recs:
        ctx.case(key=[r["uniq"], r["payload"]], nontrivial=len(r["uniq"]) > 0)
    ctx.traces_validated = len(recs) - len(bad)
    ctx.sample(dict(kind="record", hdr=recs[7]["uniq"], bytes=recs[7]["bytes"], payload=recs[7]["payload"], readers=sorted(recs[7]["readers"])))
    ctx.sample(dict(kind="record", hdr=recs[-1]["uniq"][:3], nbytes=len(recs[-1]["bytes"]), readers=sorted(recs[-1]["readers"])))
    # binding self-test: a one-byte corruption of the size field must be reported
    import copy
    c = copy.deepcopy(recs[min(9, len(recs) - 1)])
    c["bytes"][4] = (c["bytes"][4] + 1) % 256
    rs = ctx.tlc("WireRecs", "WireRecs.cfg", workers=1, timeout=300, count=False,
                 extra_files={"wire_recs.ndjson": json.dumps(c, separators=(",", ":")) + "\n"})
    if not any(x.startswith("BAD-RECORD") for x in rs.printed):
        raise MachineryError("binding self-test: a corrupted size field was accepted by WireRecs")
    ctx.extra["binding_selftest"] = "a record whose size field was incremented is rejected by TLC"
    ctx.exhaustive = False


if __name__ == "__main__":
    main("C04", run, "model_checking")
