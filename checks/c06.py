#!/usr/bin/env python3
"""C06 - the inbound path never stalls (no head-of-line blocking)."""
import os, sys, itertools
sys.path.insert(0, os.path.dirname(os.path.abspath(__file__)))
from muxlib import *

PROPS = ("C06",)


def adversarial_prefixes(max_frames, variant="adapter"):
    """Exhaustive family: one caller held at G0 (before its select) or at G2 (after its select, before
    Unregister) or not held, while every sequence of <= max_frames frames over {own id, unknown id} arrives."""
    out = []
    for hold in ("G0", "G2-timeout", "G2-result", "none"):
        for n in range(1, max_frames + 1):
            for seq in itertools.product((1, 9), repeat=n):
                steps = [dict(a="Register", c=1, reg=1)]
                if variant == "adapter":
                    steps.append(dict(a="SendOk", c=1, reg=1))
                inch = 0
                def frames(steps, seq, registered, inch):
                    for o in seq:
                        if o == 1 and registered:
                            steps.append(dict(a="LookupHit", c=1, reg=1))
                            if inch == 0:
                                steps.append(dict(a="DeliverPut", c=1, reg=1)); inch = 1
                            else:
                                steps.append(dict(a="DeliverDrop", c=1, reg=1))
                        else:
                            steps.append(dict(a="LookupMiss", c=o, reg=1 if registered else 0))
                    return inch
                if hold == "G0":
                    inch = frames(steps, seq, True, inch)
                    steps += [dict(a="Recv" if inch else "Expire", c=1, reg=1)]
                    if not inch:
                        steps += [dict(a="Timeout", c=1, reg=1)]
                    steps += [dict(a="Unregister", c=1, reg=0)]
                elif hold == "G2-timeout":
                    steps += [dict(a="Expire", c=1, reg=1), dict(a="Timeout", c=1, reg=1)]
                    frames(steps, seq, True, 0)
                    steps += [dict(a="Unregister", c=1, reg=0)]
                elif hold == "G2-result":
                    steps += [dict(a="LookupHit", c=1, reg=1), dict(a="DeliverPut", c=1, reg=1), dict(a="Recv", c=1, reg=1)]
                    frames(steps, seq, True, 0)
                    steps += [dict(a="Unregister", c=1, reg=0)]
                else:
                    steps += [dict(a="LookupHit", c=1, reg=1), dict(a="DeliverPut", c=1, reg=1), dict(a="Recv", c=1, reg=1),
                              dict(a="Unregister", c=1, reg=0)]
                    frames(steps, seq, False, 0)
                out.append(json.dumps(steps, separators=(",", ":")))
    return out


def run(ctx):
    thorough = ctx.tier == "thorough"
    ctx.rule = ("(a) exhaustive adversarial prefixes: a caller held before its select, after a timeout, after a result, or "
                "already unregistered x every sequence of <= N frames over {own id, unknown id}; (b) random walks of "
                "ClientMuxGen; each replayed through the real adapter and NATS transports with the verif gates, then a fresh "
                "request must be served; (c) randomized concurrent sessions. Oracle: every injected frame is looked up, the "
                "reader goroutine is never parked in dispatch (goroutine dump, twice 150 ms apart), the fresh request gets its "
                "own response within 1 s. non-trivial = contains a duplicate / late / unknown frame; distinct by JSON")
    ctx.assumptions += ["'promptly' = within 1 s on this box (typical < 1 ms)",
                        "a goroutine seen parked in the same channel send on two dumps 150 ms apart is blocked"]
    model_check(ctx)
    anti_vacuity(ctx)
    binary = ctx.go_build("mux")
    # every prefix is first checked to be a behaviour of the specification? they are built from its actions:
    for variant in ("adapter", "nats"):
        pref = adversarial_prefixes(4 if thorough else 3, variant)
        ctx.sample(dict(kind="adversarial-prefix", variant=variant, steps=json.loads(pref[len(pref) // 2])))
        res = replay_and_validate(ctx, binary, variant, pref, PROPS, "prefix")
        ctx.extra.setdefault("prefix_replay", {})[variant] = dict(behaviours=res["runs"], steered_exactly=res["steered_exactly"],
                                                                  diverged=res["diverged"])
        behs = behaviours(ctx, variant, 300 if thorough else 40, 30, callers=3, frames=10, seed_off=6)
        res = replay_and_validate(ctx, binary, variant, behs, PROPS, "sim")
        ctx.extra.setdefault("sim_replay", {})[variant] = dict(behaviours=res["runs"], steered_exactly=res["steered_exactly"],
                                                               diverged=res["diverged"])
        rr = random_and_validate(ctx, binary, variant, 200 if thorough else 25, 16, PROPS, seed_off=6)
    ctx.exhaustive = False


if __name__ == "__main__":
    main("C06", run, "model_checking")
