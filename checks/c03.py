#!/usr/bin/env python3
"""C03 - a call through generated client and server code is faithful end to end."""
import os, sys, json
sys.path.insert(0, os.path.join(os.path.dirname(os.path.abspath(__file__)), "..", "lib"))
from vlib import *


def find(ctx, name):
    for root, _, files in os.walk(ctx.scratch):
        if name in files:
            return os.path.join(root, name)


def run(ctx):
    thorough = ctx.tier == "thorough"
    ctx.rule = ("cases = every single call (8 methods of the verif IDL: own and inherited through extends, void / value / struct / "
                "container / binary results, two declared exceptions, two oneway methods) x argument class {zero values, typical, "
                "edge: multi-byte and control characters, extreme integers, empty and 40-entry containers, all 256 byte values, "
                "70 kB binary} x every handler outcome the IDL allows {return, first / second declared exception, undeclared error, "
                "handler's own application exception}, plus every ordered pair of (method, outcome) calls on one client, plus (HTTP) every "
                "call with the connection dropped between handler and response and every two-way call by a caller that accepts only 8 "
                "bytes of reply followed by an ordinary call; "
                "enumerated by TLC with what Rpc says the caller observes, the handler count and the number of reply frames; run "
                "over in-memory, TCP adapter + simple server, HTTP and NATS x binary / compact / JSON (pairs rotate over the 12 "
                "combinations; quick: every 6th pair per combination). non-trivial = outcome is not a plain return or arguments "
                "are not 'typical'; distinct by (transport, protocol, sequence)")
    ctx.assumptions += ["the quantifier 'all valid IDL services' is covered by this one deliberately rich program (and by the services inside the "
                        "C11 / C02 programs): exploration with respect to programs",
                        "the scripted handler's return values are a pure function of its arguments"]
    ctx.tlc_must_hold("Rpc", "r.cfg", workers=4, timeout=900, cfg_text=(
        "SPECIFICATION Spec\nCONSTANTS MaxCalls = %d\nINVARIANTS OncePerCall Faithful InheritedSame\nCHECK_DEADLOCK FALSE\n" % (3 if not thorough else 4)))
    ctx.tlc_must_hold("RpcCases", "c.cfg", workers=1, timeout=600, cfg_text="SPECIFICATION Spec\nCONSTANTS MaxLen = 2\nCHECK_DEADLOCK FALSE\n")
    cases_file = find(ctx, "rpc_cases.json")
    cases = json.load(open(cases_file))
    binary = ctx.go_build("rpc")
    out = os.path.join(ctx.scratch, "rpc_res.json")
    stride = 1 if thorough else 6
    p = ctx.run_driver(binary, ["-in", cases_file, "-out", out, "-stride", str(stride), "-offset", str(ctx.seed % stride)], timeout=3000 if thorough else 420)
    if p.returncode != 0 or not os.path.exists(out):
        if "panic:" in p.stdout or "fatal error" in p.stdout:
            import re
            m = re.search(r"^(panic: .*|fatal error: .*)$", p.stdout, re.M)
            ctx.violation("process-died", "the process died: %s" % (m.group(1) if m else p.stdout[-800:]), p.stdout[-3000:])
            return
        raise MachineryError("rpc driver failed: " + p.stdout[-2000:])
    res = json.load(open(out))
    for v in res.get("violations") or []:
        ctx.violation(v["key"], v["text"], v["replay"])
    for u in res.get("unusable_combinations") or []:
        ctx.note("harness environment: combination left out - " + u[:6000])
    ctx.extra["combinations_left_out"] = [u.split(":")[0] for u in res.get("unusable_combinations") or []]
    if len(res.get("unusable_combinations") or []) > 6:
        raise MachineryError("more than half of the transport / protocol combinations are unusable in this environment: " + "; ".join(u[:300] for u in res["unusable_combinations"][:3]))
    k = 0
    for kind in ("mem", "tcp", "http", "nats"):
        for proto in ("binary", "compact", "json"):
            k += 1
            for i, seq in enumerate(cases):
                if len(seq) > 1 and seq[0].get("fault", "none") == "none" and (i + ctx.seed % stride + k) % stride != 0:
                    continue
                if any(c.get("fault", "none") != "none" for c in seq) and kind != "http":
                    continue
                ctx.case(key=[kind, proto, seq], nontrivial=any(c["o"] != "return" or c["args"] != "typical" for c in seq))
    ctx.traces_validated = res["runs"]
    ctx.extra["calls"] = res["calls"]
    ctx.extra["calls_per_transport_protocol"] = res["calls_per_transport_protocol"]
    for s in res.get("samples") or []:
        ctx.sample(s, limit=2)
    ctx.exhaustive = (stride == 1)


if __name__ == "__main__":
    main("C03", run, "model_checking")
