#!/usr/bin/env python3
"""C12 - size limits are enforced exactly and reported, never silently."""
import os, sys, json
sys.path.insert(0, os.path.join(os.path.dirname(os.path.abspath(__file__)), "..", "lib"))
from vlib import *


def sl_cfg(L, broker, covers):
    return ('SPECIFICATION Spec\nCONSTANTS Sizes = {1,2,5} MaxWrites = 3 L = %d Broker = %d Covers = "%s"\n'
            'INVARIANTS Exact NothingSentWhenRejected SentWhole ReplyNeverTimesOut ReplyExact\nCHECK_DEADLOCK FALSE\n' % (L, broker, covers))


def find(ctx, name):
    for root, _, files in os.walk(ctx.scratch):
        if name in files:
            return os.path.join(root, name)


def drive(ctx, binary, args, tag):
    out = os.path.join(ctx.scratch, "sl_%s.json" % tag)
    p = ctx.run_driver(binary, args + ["-out", out], timeout=1800)
    if p.returncode != 0 or not os.path.exists(out):
        full = p.stdout
        if "panic:" in full or "fatal error" in full:
            ctx.violation(tag + "/process-died", "the process died: " + full[-1500:], full[-3000:])
            return None
        raise MachineryError("sizelimit driver failed: " + full[-2000:])
    res = json.load(open(out))
    for v in res.get("violations") or []:
        ctx.violation(v["key"], v["text"], v["replay"])
    return res


def run(ctx):
    thorough = ctx.tier == "thorough"
    ctx.rule = ("(a) buffer level: every message of <= 3 primitive writes (Write / WriteByte / WriteString) over sizes {1,2,5} "
                "(thorough {1,2,3,5,8}) for every limit in a set, enumerated by TLC with the outcome SizeLimit forces, applied to the "
                "real TMemoryOutputBuffer (status, bytes held, error type, reusable); (b) end to end with the generated client / "
                "processor / publisher: payload shapes {large header first, string, binary, struct with the large string in the "
                "middle, large binary near the end, list, map + union, oneway} padded so that the framed size is exactly L-1, L, "
                "L+1, 2L for each limit, under binary / compact / JSON, on the paths client request (capture transport: bytes "
                "handed over), publish, HTTP request limit (no HTTP request made), HTTP client-requested response limit (413 -> "
                "RESPONSE_TOO_LARGE), NATS 1 MiB request / publish / server reply (RESPONSE_TOO_LARGE, never a timeout); the next "
                "small call succeeds. non-trivial = size at or above the limit; distinct by case tuple")
    ctx.assumptions += ["request / publish limits count the framed size (4-byte prefix included), as TMemoryOutputBuffer and the transports do",
                        "the HTTP client-requested response limit is compared with the unframed reply, as the handler does"]
    for L, B in ((9, 12), (12, 0), (0, 0)):
        ctx.tlc_must_hold("SizeLimit", "s.cfg", cfg_text=sl_cfg(L, B, "all"), timeout=300, workers=4)
    # named deviation: the limit covering only Write (WriteString / WriteByte promoted from bytes.Buffer) must be caught
    ctx.tlc("SizeLimit", "s.cfg", cfg_text=sl_cfg(9, 12, "write"), expect_violation="Exact", count=False, timeout=300, workers=4)
    sizes = "{1,2,3,5,8}" if thorough else "{1,2,5}"
    ctx.tlc_must_hold("SizeLimitCases", "c.cfg", workers=1, timeout=1200, heap="8g",
                      cfg_text="SPECIFICATION Spec\nCONSTANTS Sizes = %s MaxWrites = 3 Limits = {0,5,6,8,9,10,12,16}\nCHECK_DEADLOCK FALSE\n" % sizes)
    cases_file = find(ctx, "sizelimit_cases.json")
    cases = json.load(open(cases_file))
    ctx.states += len(cases)
    ctx.transitions += len(cases)
    binary = ctx.go_build("sizelimit")
    rb = drive(ctx, binary, ["-mode", "buffer", "-in", cases_file], "buffer")
    if rb:
        for c in cases:
            ctx.case(key=["buffer", c["writes"], c["limit"]], nontrivial=c["limit"] > 0 and c["total"] >= c["limit"])
        ctx.traces_validated += rb["runs"]
        for s in rb.get("samples") or []:
            ctx.sample(dict(kind="buffer", case=s), limit=2)
    re_ = drive(ctx, binary, ["-mode", "e2e"], "e2e")
    if re_:
        for r in re_.get("records") or []:
            size = r.get("framed_size") or r.get("unframed_reply_size") or r.get("framed_reply_size") or 0
            ctx.case(key=r, nontrivial=size >= r.get("limit", 0))
        ctx.traces_validated += re_["runs"]
        ctx.extra["e2e_runs"] = re_["runs"]
        for r in (re_.get("records") or [])[:1] + (re_.get("records") or [])[-2:]:
            ctx.sample(dict(kind="e2e", case=r), limit=5)
    ctx.exhaustive = False


if __name__ == "__main__":
    main("C12", run, "model_checking")
