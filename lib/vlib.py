"""Shared engine for the /verif checks.

Every check is a Python module checks/cXX.py with a function run(ctx).  The
engine gives it: a scratch directory (removed at exit), TLC runners, the Go
harness builder (a scratch copy of /verif/harness compiled against /repo's
current working tree with -tags verif), evidence / verdict bookkeeping.

Exit codes: 0 property held on everything explored, 1 VIOLATION (real code
misbehaved), 2 machinery error (TLC timeout, build failure, spec counterexample
that real code does not reproduce, ...).
"""
import json, os, re, shutil, subprocess, sys, tempfile, time, hashlib, glob

VERIF = os.path.dirname(os.path.dirname(os.path.abspath(__file__)))
REPO = os.environ.get("VERIF_REPO", "/repo")
# evidence/ and replays/ go here (seed runs against scratch worktrees set VERIF_OUT so that they never touch /verif/evidence)
OUT = os.environ.get("VERIF_OUT", VERIF)
JAR = "/opt/veriftools/tla/tla2tools.jar:/opt/veriftools/tla/CommunityModules-deps.jar"
NCPU = os.cpu_count() or 4

GOENV = dict(GOFLAGS="-mod=mod", GOPROXY="off", GOSUMDB="off", GOTOOLCHAIN="local")


class MachineryError(Exception):
    pass


def log(*a):
    print(*a, file=sys.stderr, flush=True)


def sh(cmd, cwd=None, timeout=600, env=None, check=True, input=None):
    e = dict(os.environ)
    e.update(GOENV)
    if env:
        e.update(env)
    t0 = time.time()
    try:
        p = subprocess.run(cmd, cwd=cwd, env=e, timeout=timeout, input=input,
                           stdout=subprocess.PIPE, stderr=subprocess.STDOUT,
                           shell=isinstance(cmd, str), text=True, errors="replace")
    except subprocess.TimeoutExpired as ex:
        out = ex.stdout or ""
        if isinstance(out, bytes):
            out = out.decode("utf8", "replace")
        raise MachineryError("timeout after %ss: %s\n%s" % (timeout, cmd, out[-2000:]))
    if check and p.returncode != 0:
        raise MachineryError("command failed (%d): %s\n%s" % (p.returncode, cmd, p.stdout[-6000:]))
    p.wall = time.time() - t0
    return p


class TLCResult:
    def __init__(self):
        self.ok = False
        self.violated = None      # name of violated invariant / property, or "deadlock"
        self.generated = 0
        self.distinct = 0
        self.out = ""
        self.wall = 0.0
        self.printed = []         # decoded PrintT strings
        self.trace = []           # counterexample states (raw text blocks)
        self.coverage_zero = []   # actions with 0 count when -coverage was given

    def json_lines(self, prefix):
        res = []
        for s in self.printed:
            if s.startswith(prefix):
                res.append(json.loads(s[len(prefix):]))
        return res


_tlc_counter = [0]


class Ctx:
    def __init__(self, pid, tier, seed):
        self.pid = pid
        self.tier = tier
        self.seed = seed
        self.t0 = time.time()
        self.scratch = tempfile.mkdtemp(prefix="verif-%s-" % pid)
        self.states = 0
        self.transitions = 0
        self.tlc_runs = []
        self.traces_validated = 0
        self.evaluations = 0
        self.distinct = set()
        self.samples = []
        self.violations = []      # list of dict(key, text, replay)
        self.known_hits = []
        self.notes = []
        self.assumptions = []
        self.extra = {}
        self.exhaustive = None
        self.rule = ""
        self.harness_dir = None
        self._frugal_bin = None

    # ------------------------------------------------------------------ TLC
    def tlc(self, module, cfg, workers=None, timeout=300, simulate=None, depth=None,
            extra_files=None, coverage=False, expect_violation=None, count=True,
            dfs=False, heap=None, defines=None, cfg_text=None, deadlock=None):
        """Run TLC on spec/<module>.tla with spec/<cfg> in a scratch copy.

        expect_violation: name of an invariant/property that MUST be violated
        (anti-vacuity runs for named deviations).  count=False keeps the run
        out of the states/transitions totals (trace validation runs).
        """
        _tlc_counter[0] += 1
        d = os.path.join(self.scratch, "tlc%d" % _tlc_counter[0])
        os.makedirs(d)
        for f in glob.glob(os.path.join(VERIF, "spec", "*.tla")):
            shutil.copy(f, d)
        if cfg_text is not None:
            with open(os.path.join(d, cfg), "w") as fh:
                fh.write(cfg_text)
        else:
            shutil.copy(os.path.join(VERIF, "spec", cfg), d)
        for name, content in (extra_files or {}).items():
            with open(os.path.join(d, name), "w") as fh:
                fh.write(content)
        if workers is None:
            workers = min(NCPU, 8)
        jopts = ["-XX:+UseParallelGC", "-Xss256m", "-Xmx%s" % (heap or "6g")]
        if dfs:
            jopts.append("-Dtlc2.tool.queue.IStateQueue=StateDeque")
        cmd = ["java"] + jopts + ["-cp", JAR, "tlc2.TLC", "-workers", str(workers),
                                 "-metadir", os.path.join(d, "meta"), "-config", cfg,
                                 "-seed", str(self.seed), "-noGenerateSpecTE"]
        if deadlock is True:
            cmd.append("-deadlock")
        if coverage:
            cmd += ["-coverage", "1"]
        if simulate is not None:
            cmd += ["-simulate", "num=%d" % simulate]
            if depth:
                cmd += ["-depth", str(depth)]
        cmd.append(module + ".tla")
        t0 = time.time()
        try:
            p = subprocess.run(cmd, cwd=d, stdout=subprocess.PIPE, stderr=subprocess.STDOUT,
                               timeout=timeout, text=True, errors="replace")
        except subprocess.TimeoutExpired:
            subprocess.run("pkill -f 'metadir %s' || true" % d, shell=True)
            raise MachineryError("TLC timeout (%ss) on %s/%s" % (timeout, module, cfg))
        r = TLCResult()
        r.out = p.stdout
        r.wall = time.time() - t0
        r.cmd = " ".join(cmd[cmd.index("tlc2.TLC"):])
        for line in p.stdout.splitlines():
            if line.startswith('"') and line.endswith('"'):
                try:
                    r.printed.append(json.loads(line))
                except Exception:
                    # TLC does not escape exactly like JSON for every char; fall back
                    r.printed.append(line[1:-1].replace('\\"', '"').replace("\\\\", "\\"))
        m = re.findall(r"(\d+) states generated, (\d+) distinct states found", p.stdout)
        if m:
            r.generated, r.distinct = int(m[-1][0]), int(m[-1][1])
        else:
            m2 = re.findall(r"(\d+) states checked", p.stdout)  # simulation mode
            if m2:
                r.generated = r.distinct = int(m2[-1])
        mv = re.search(r"Invariant (\S+) is violated", p.stdout)
        if mv:
            r.violated = mv.group(1)
        elif "Temporal properties were violated" in p.stdout or re.search(r"Temporal property \S+ was violated", p.stdout):
            r.violated = "temporal"
        elif re.search(r"Action property (\S+) is violated", p.stdout):
            r.violated = re.search(r"Action property (\S+) is violated", p.stdout).group(1)
        elif "Deadlock reached" in p.stdout:
            r.violated = "deadlock"
        elif re.search(r"Postcondition \S+ .*is false", p.stdout) or "postcondition has been violated" in p.stdout:
            r.violated = "postcondition"
        elif re.search(r"Assumption .* is false", p.stdout):
            r.violated = "assumption"
        r.ok = (p.returncode == 0 and r.violated is None)
        if r.violated:
            r.trace = re.findall(r"State \d+: .*?\n(?:.*\n)*?(?=\n|State|\Z)", p.stdout)
        if coverage:
            r.coverage_zero = re.findall(r"^<(\w+) line[^>]*>: 0:0", p.stdout, re.M)
        if not r.ok and r.violated is None:
            raise MachineryError("TLC failed on %s/%s (rc %d):\n%s" % (module, cfg, p.returncode, p.stdout[-5000:]))
        if expect_violation is not None:
            if r.violated is None:
                raise MachineryError("anti-vacuity: %s/%s was expected to violate %s but TLC found nothing"
                                     % (module, cfg, expect_violation))
        if count:
            self.states += r.distinct
            self.transitions += r.generated
        self.tlc_runs.append(dict(module=module, cfg=cfg, generated=r.generated, distinct=r.distinct,
                                  wall_s=round(r.wall, 2), violated=r.violated,
                                  expected_violation=expect_violation, cmd=r.cmd))
        log("[tlc] %s/%s: %d generated, %d distinct, %.1fs%s" % (
            module, cfg, r.generated, r.distinct, r.wall, (" VIOLATED " + str(r.violated)) if r.violated else ""))
        return r

    def tlc_must_hold(self, module, cfg, **kw):
        r = self.tlc(module, cfg, **kw)
        if not r.ok:
            # A counterexample on the spec alone is a machinery problem (DESIGN §1).
            raise MachineryError("spec %s/%s violates %s on the design model; the spec (or the design) is wrong:\n%s"
                                 % (module, cfg, r.violated, r.out[-4000:]))
        return r

    # ------------------------------------------------------------ Go harness
    def harness(self):
        """Scratch copy of /verif/harness wired to /repo's working tree."""
        if self.harness_dir:
            return self.harness_dir
        d = os.path.join(self.scratch, "h")
        shutil.copytree(os.path.join(VERIF, "harness"), d,
                        ignore=shutil.ignore_patterns("gen", "*.test", "go.sum"))
        with open(os.path.join(d, "go.mod")) as fh:
            gm = fh.read().replace("/repo", REPO)
        with open(os.path.join(d, "go.mod"), "w") as fh:
            fh.write(gm)
        sums = set()
        for f in (os.path.join(REPO, "go.sum"), os.path.join(REPO, "lib/go/go.sum"),
                  os.path.join(VERIF, "harness", "go.sum.extra")):
            if os.path.exists(f):
                sums.update(l for l in open(f).read().splitlines() if l.strip())
        with open(os.path.join(d, "go.sum"), "w") as fh:
            fh.write("\n".join(sorted(sums)) + "\n")
        self.harness_dir = d
        self.generate_go(["rpc.frugal"])
        return d

    def frugal_bin(self):
        if self._frugal_bin:
            return self._frugal_bin
        out = os.path.join(self.scratch, "frugal")
        sh(["go", "build", "-o", out, "."], cwd=REPO, timeout=600)
        self._frugal_bin = out
        return out

    def generate_go(self, idl_files, extra_opts="", delim=None):
        """Compile verif/idl/<files> with /repo's compiler into the harness copy under gen/."""
        h = self.harness()
        out = os.path.join(h, "gen")
        os.makedirs(out, exist_ok=True)
        for f in idl_files:
            src = f if os.path.isabs(f) else os.path.join(VERIF, "idl", f)
            cmd = [self.frugal_bin(), "-gen", "go:package_prefix=verifharness/gen/" + extra_opts, "-out", out]
            if delim:
                cmd += ["-delim", delim]
            cmd += ["-r", src]
            sh(cmd, cwd=os.path.dirname(src), timeout=120)
        return out

    def go_test_build(self, pkg, race=False, name=None):
        h = self.harness()
        out = os.path.join(self.scratch, (name or pkg.replace("/", "_")) + ".test")
        cmd = ["go", "test", "-c", "-tags", "verif", "-vet=off", "-o", out]
        if race:
            cmd.append("-race")
        cmd.append("./" + pkg)
        sh(cmd, cwd=h, timeout=900)
        return out

    def go_build(self, pkg, race=False, name=None):
        h = self.harness()
        out = os.path.join(self.scratch, (name or pkg.replace("/", "_")) + ".bin")
        cmd = ["go", "build", "-tags", "verif", "-o", out]
        if race:
            cmd.append("-race")
        cmd.append("./" + pkg)
        sh(cmd, cwd=h, timeout=900)
        return out

    def run_driver(self, binary, args=None, env=None, timeout=600, mem_kb=12000000, cwd=None, input=None):
        """Run a driver binary under ulimit -v and an outer timeout.  Returns CompletedProcess
        (never raises on non-zero exit: a dying driver is information for the caller)."""
        a = " ".join("'%s'" % x.replace("'", "'\\''") for x in ([binary] + list(args or [])))
        cmd = "ulimit -v %d; exec %s" % (mem_kb, a)
        e = {"VERIF_SEED": str(self.seed), "VERIF_TIER": self.tier, "VERIF_SCRATCH": self.scratch}
        if env:
            e.update(env)
        try:
            return sh(cmd, cwd=cwd or self.scratch, timeout=timeout, env=e, check=False, input=input)
        except MachineryError as ex:
            raise

    # -------------------------------------------------------------- verdicts
    def case(self, key=None, nontrivial=True):
        self.evaluations += 1
        if key is not None and nontrivial:
            self.distinct.add(hashlib.sha1(json.dumps(key, sort_keys=True).encode()).hexdigest())

    def sample(self, s, limit=6):
        if len(self.samples) < limit:
            self.samples.append(s)

    def violation(self, key, text, replay_obj=None):
        """Record a violation observed on REAL code.  key: stable identity used by KNOWN_FINDINGS."""
        self.violations.append(dict(key=key, text=text, replay=replay_obj))

    def note(self, s):
        self.notes.append(s)
        log("[note] " + s)


def load_known(pid):
    res = {}
    fixed = []
    p = os.path.join(VERIF, "KNOWN_FINDINGS.txt")
    if not os.path.exists(p):
        return res, fixed
    for line in open(p):
        line = line.strip()
        if not line or line.startswith("#"):
            continue
        m = re.match(r"finding: property=(\S+) key=(\S+)\s*(.*)", line)
        if m and m.group(1) == pid:
            res[m.group(2)] = m.group(3)
        m = re.match(r"fixed: property=(\S+)\s+(.*)", line)
        if m and m.group(1) == pid:
            fixed.append(m.group(2))
    return res, fixed


def key_matches(pattern, key):
    """Known-finding keys may end with '*' (prefix match on a stable key family)."""
    if pattern.endswith("*"):
        return key.startswith(pattern[:-1])
    return pattern == key


def finish(ctx, level, level_text=""):
    known, fixed = load_known(ctx.pid)
    real = []
    known_seen = {}
    for v in ctx.violations:
        hit = None
        for pat in known:
            if key_matches(pat, v["key"]):
                hit = pat
                break
        if hit:
            known_seen.setdefault(hit, []).append(v)
        else:
            real.append(v)
    for pat, vs in known_seen.items():
        print("KNOWN-FINDING: property=%s key=%s %s (%d case(s) this run, e.g. %s)" % (
            ctx.pid, pat, known[pat], len(vs), vs[0]["text"][:200]))
    rc = 0
    if real:
        rdir = os.path.join(OUT, "replays", ctx.pid)
        os.makedirs(rdir, exist_ok=True)
        seen = set()
        # one violation per distinct key first, so that every failing family shows up in the output
        firsts, rest, ks = [], [], set()
        for v in real:
            (rest if v["key"] in ks else firsts).append(v)
            ks.add(v["key"])
        real = firsts + rest
        for i, v in enumerate(real[:30]):
            name = re.sub(r"[^A-Za-z0-9_.-]+", "_", v["key"])[:80] or "v%d" % i
            if name in seen:
                name += "_%d" % i
            seen.add(name)
            path = os.path.join(rdir, name + ".json")
            with open(path, "w") as fh:
                json.dump(dict(property=ctx.pid, key=v["key"], text=v["text"], seed=ctx.seed,
                               tier=ctx.tier, replay=v["replay"]), fh, indent=1, default=str)
            print("VIOLATION property=%s replay=%s" % (ctx.pid, path))
            print("  " + v["text"][:600])
        if len(real) > 30:
            print("  (+%d more violations not written out)" % (len(real) - 30))
        rc = 1
    cov = dict(
        evaluations=ctx.evaluations,
        distinct_nontrivial=len(ctx.distinct),
        rule=ctx.rule,
        samples=ctx.samples or ["(no sample recorded)"],
        states=ctx.states,
        transitions=ctx.transitions,
        traces_validated_against_impl=ctx.traces_validated,
        tlc_runs=ctx.tlc_runs,
        known_findings_reproduced=sorted(known_seen.keys()),
        notes=ctx.notes,
    )
    if ctx.exhaustive is not None:
        cov["exhaustive"] = bool(ctx.exhaustive)
    cov.update(ctx.extra)
    ev = dict(property_id=ctx.pid, tier=ctx.tier, seed=ctx.seed, level=level, coverage=cov,
              assumptions=ctx.assumptions, wall_s=round(time.time() - ctx.t0, 2), violations=len(real))
    os.makedirs(os.path.join(OUT, "evidence"), exist_ok=True)
    with open(os.path.join(OUT, "evidence", ctx.pid + ".json"), "w") as fh:
        json.dump(ev, fh, indent=1, default=str)
    log("[%s] %s tier=%s seed=%d evaluations=%d distinct=%d states=%d traces=%d wall=%.1fs -> exit %d" % (
        ctx.pid, level, ctx.tier, ctx.seed, ctx.evaluations, len(ctx.distinct), ctx.states,
        ctx.traces_validated, time.time() - ctx.t0, rc))
    return rc


def main(pid, run, level):
    import argparse
    ap = argparse.ArgumentParser()
    ap.add_argument("--tier", default=os.environ.get("VERIF_TIER", "quick"))
    ap.add_argument("--replay", default=None)
    ap.add_argument("--keep", action="store_true")
    a = ap.parse_args(sys.argv[2:] if len(sys.argv) > 1 and sys.argv[1].upper() == pid else sys.argv[1:])
    tier = a.tier if a.tier in ("quick", "thorough") else "quick"
    try:
        seed = int(os.environ.get("VERIF_SEED", "1"))
    except ValueError:
        seed = 1
    seed = seed % (2 ** 31)
    ctx = Ctx(pid, tier, seed)
    ctx.replay = a.replay
    rc = 2
    try:
        run(ctx)
        rc = finish(ctx, level)
    except MachineryError as ex:
        print("MACHINERY-ERROR property=%s: %s" % (pid, ex))
        rc = 2
    except Exception:
        import traceback
        traceback.print_exc()
        print("MACHINERY-ERROR property=%s: unexpected exception" % pid)
        rc = 2
    finally:
        if a.keep:
            log("scratch kept: " + ctx.scratch)
        else:
            shutil.rmtree(ctx.scratch, ignore_errors=True)
    sys.exit(rc)
