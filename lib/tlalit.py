"""JSON value -> TLA+ literal (records, sequences, strings, integers, booleans)."""
import json


def lit(x):
    if isinstance(x, bool):
        return "TRUE" if x else "FALSE"
    if isinstance(x, int):
        return str(x)
    if isinstance(x, str):
        return '"' + x.replace("\\", "\\\\").replace('"', '\\"') + '"'
    if isinstance(x, list):
        return "<<" + ", ".join(lit(y) for y in x) + ">>"
    if isinstance(x, dict):
        if not x:
            raise ValueError("empty record")
        return "[" + ", ".join("%s |-> %s" % (k, lit(v)) for k, v in sorted(x.items())) + "]"
    raise ValueError("no TLA+ literal for %r" % (x,))


def module(name, defname, value):
    return "---- MODULE %s ----\nEXTENDS Integers\n%s == %s\n====\n" % (name, defname, lit(value))
