SPECIFICATION Spec
CONSTANTS MaxGen = 2 CloseSignal = "pergen+id" MaxAttempts = 2 UserReopens = TRUE WithMonitor = FALSE AllowCloseFail = TRUE
INVARIANTS FailureDetected OpenHasReader OneCause ClosedHasCause CauseNilIffClean NoSpuriousClose AttemptsBounded MonitorToldEveryClose
PROPERTIES CloseReturns Reopened
CHECK_DEADLOCK FALSE
