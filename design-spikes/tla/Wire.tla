------------------------------- MODULE Wire -------------------------------
EXTENDS Integers, Sequences, FiniteSets, TLC, Json
\* bytes are naturals 0..255; strings are sequences of bytes
BE32(n) == << (n \div 16777216) % 256, (n \div 65536) % 256, (n \div 256) % 256, n % 256 >>
I32(s, i) == (IF s[i] >= 128 THEN s[i] - 256 ELSE s[i]) * 16777216 + s[i+1] * 65536 + s[i+2] * 256 + s[i+3]
RECURSIVE Cat(_)
Cat(ss) == IF ss = <<>> THEN <<>> ELSE Head(ss) \o Cat(Tail(ss))
PairBytes(p) == BE32(Len(p[1])) \o p[1] \o BE32(Len(p[2])) \o p[2]
RECURSIVE Sum(_)
Sum(ns) == IF ns = <<>> THEN 0 ELSE Head(ns) + Sum(Tail(ns))
Marshal(pairs) == LET body == Cat([i \in 1..Len(pairs) |-> PairBytes(pairs[i])])
                  IN <<0>> \o BE32(Len(body)) \o body
\* total parser of "version, size, pairs, rest": [ok |-> TRUE, hdr |-> set of pairs, rest |-> bytes] or [ok |-> FALSE, why |-> ...]
RECURSIVE Pairs(_, _, _, _)
Pairs(s, i, end, acc) ==       \* i, end are 1-based positions; region is [i, end)
  IF i >= end THEN [ok |-> TRUE, hdr |-> acc]
  ELSE IF i + 4 > end THEN [ok |-> FALSE, why |-> "name-size-truncated"]
  ELSE LET k == I32(s, i) IN
       IF k < 0 \/ i + 4 + k > end THEN [ok |-> FALSE, why |-> "name"]
       ELSE LET j == i + 4 + k IN
            IF j + 4 > end THEN [ok |-> FALSE, why |-> "value-size-truncated"]
            ELSE LET v == I32(s, j) IN
                 IF v < 0 \/ j + 4 + v > end THEN [ok |-> FALSE, why |-> "value"]
                 ELSE Pairs(s, j + 4 + v, end,
                            [n \in (DOMAIN acc) \cup {SubSeq(s, i + 4, j - 1)} |->
                               IF n = SubSeq(s, i + 4, j - 1) THEN SubSeq(s, j + 4, j + 3 + v) ELSE acc[n]])
EmptyMap == [x \in {} |-> <<>>]
Parse(s) ==
  IF Len(s) < 1 THEN [ok |-> FALSE, why |-> "empty"]
  ELSE IF s[1] # 0 THEN [ok |-> FALSE, why |-> "version"]
  ELSE IF Len(s) < 5 THEN [ok |-> FALSE, why |-> "size-truncated"]
  ELSE LET m == I32(s, 2) IN
       IF m < 0 \/ 5 + m > Len(s) THEN [ok |-> FALSE, why |-> "size"]
       ELSE LET r == Pairs(s, 6, 6 + m, EmptyMap) IN
            IF r.ok THEN [ok |-> TRUE, hdr |-> r.hdr, rest |-> SubSeq(s, 6 + m, Len(s))] ELSE r
\* ---- record validation: each record = [hdr: seq of <<name,value>>, bytes, payload]
Recs == ndJsonDeserialize("recs.ndjson")
ToMap(ps) == [n \in {ps[i][1] : i \in 1..Len(ps)} |-> (CHOOSE i \in 1..Len(ps) : ps[i][1] = n /\ \A j \in i+1..Len(ps) : ps[j][1] # n) ]
RecOK(r) == LET p == Parse(r.bytes \o r.payload) IN
              /\ p.ok
              /\ p.rest = r.payload
              /\ DOMAIN p.hdr = {r.hdr[i][1] : i \in 1..Len(r.hdr)}
              /\ \A i \in 1..Len(r.hdr) : p.hdr[r.hdr[i][1]] = r.hdr[i][2]
              /\ I32(r.bytes, 2) = Sum([i \in 1..Len(r.hdr) |-> 8 + Len(r.hdr[i][1]) + Len(r.hdr[i][2])])
VARIABLE k
Init == k = 1
Next == k <= Len(Recs) /\ k' = k + 1
Spec == Init /\ [][Next]_k
AllOK == k <= Len(Recs) => RecOK(Recs[k])
RoundTrip == \A a, b \in {<<>>, <<97>>, <<195, 169>>} : \A c, d \in {<<>>, <<120>>} :
               LET ps == IF a = c THEN <<<<a, b>>>> ELSE << <<a, b>>, <<c, d>> >> IN
               Parse(Marshal(ps) \o <<1,2,3>>).ok /\ Parse(Marshal(ps) \o <<1,2,3>>).rest = <<1,2,3>>
ASSUME RoundTrip
=============================================================================
