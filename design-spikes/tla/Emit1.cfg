SPECIFICATION Spec
CONSTANT MaxDepth = 1
INVARIANT Emit
CHECK_DEADLOCK FALSE
