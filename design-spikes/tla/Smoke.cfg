SPECIFICATION Spec
INVARIANT Emit
CONSTRAINT Bound
CHECK_DEADLOCK FALSE
