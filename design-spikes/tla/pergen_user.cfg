SPECIFICATION Spec
CONSTANTS MaxGen = 3 CloseSignal = "pergen" MaxAttempts = 2 UserReopens = TRUE WithMonitor = FALSE AllowCloseFail = FALSE
INVARIANTS FailureDetected OpenHasReader OneCause ClosedHasCause CauseNilIffClean NoSpuriousClose AttemptsBounded MonitorToldEveryClose
PROPERTIES CloseReturns Reopened
CHECK_DEADLOCK FALSE
