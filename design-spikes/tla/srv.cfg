SPECIFICATION Spec
CONSTANTS Conns = {1,2} MaxReq = 2 ServerKind = "simple"
INVARIANTS OneReplyEach HandlerAtMostOnce Survives
CHECK_DEADLOCK FALSE
