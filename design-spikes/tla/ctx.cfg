SPECIFICATION Spec
CONSTANTS Ctxs = {1,2,3} Names = {"a","b"} Vals = {"x","y"} MaxSteps = 5
INVARIANTS UniqueOps FreshHandlerOp
CHECK_DEADLOCK FALSE
