SPECIFICATION Spec
CONSTANTS Sizes = {1, 2, 5, 9} MaxWrites = 4 L = 12 Broker = 12 Covers = "all"
INVARIANTS Exact NothingSentWhenRejected SentWhole ReplyNeverTimesOut ReplyExact
CHECK_DEADLOCK FALSE
