---- MODULE MuxTrace ----
EXTENDS ClientMux, Json, TLCExt
TraceLog == ndJsonDeserialize("trace.ndjson")
VARIABLE l
tvars == <<vars, l>>
TInit == Init /\ l = 1
Ev(e) == l <= Len(TraceLog) /\ TraceLog[l].ev = e
Adv == l' = l + 1
TRegister == Ev("Reg") /\ Register(TraceLog[l].op) /\ Cardinality(reg') = TraceLog[l].n /\ Adv
TUnreg == Ev("Unreg") /\ Unregister(TraceLog[l].op) /\ Cardinality(reg') = TraceLog[l].n /\ Adv
TLookup == Ev("Lookup") /\ Lookup(TraceLog[l].op) /\ ((rd'[1] = "send") <=> TraceLog[l].found) /\ Adv
TRet == Ev("Ret") /\ LET c == TraceLog[l].op IN
          /\ IF TraceLog[l].kind = "timeout" THEN Timeout(c) ELSE Recv(c) /\ res'[c] = TraceLog[l].got
          /\ Adv
\* the channel send itself is not logged: silent step, at most one per Lookup
TSilentDeliver == Deliver /\ UNCHANGED l
TNext == TRegister \/ TUnreg \/ TLookup \/ TRet \/ TSilentDeliver
TSpec == TInit /\ [][TNext]_tvars
HighWater == TLCSet(1, IF l > TLCGet(1) THEN l ELSE TLCGet(1))
Accepted == TLCGet(1) = Len(TraceLog) + 1
ASSUME TLCSet(1, 0)
====
