SPECIFICATION Spec
CONSTANTS Callers = {1,2} Unknown = {9} MaxFrames = 5 Blocking = TRUE Cap = 1
INVARIANTS Correlated ReaderNeverBlocked NoLeak
CHECK_DEADLOCK FALSE
