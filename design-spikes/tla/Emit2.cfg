SPECIFICATION Spec
CONSTANT MaxDepth = 2
INVARIANT Emit
CHECK_DEADLOCK FALSE
