----------------------------- MODULE AdapterLife -----------------------------
(***************************************************************************)
(* fAdapterTransport lifecycle (adapter_transport.go) with the transport   *)
(* monitor runner (transport_monitor.go).                                  *)
(* Processes: the user thread (0), one read loop per generation (1..MaxGen)*)
(* and the monitor runner (99).  f.mu is an explicit lock so that a        *)
(* goroutine blocked while holding it is a state TLC can see.              *)
(***************************************************************************)
EXTENDS Integers, Sequences, FiniteSets, TLC
CONSTANTS MaxGen,          \* bound on successful opens
          CloseSignal,     \* "shared" (pinned code) | "pergen" | "pergen+id" (fix)
          MaxAttempts,     \* monitor policy: MaxReopenAttempts
          UserReopens,     \* TRUE: the user may call Open again after a close (no monitor racing it)
          WithMonitor,
          AllowCloseFail   \* underlying Close() may fail (outside C15's fault list; explored separately)
Gens == 1..MaxGen
USER == 0  MON == 99  FREE == -1
Closers == {USER} \cup Gens
VARIABLES isOpen, gen, mu, tokS, tokG, under, fault, rl, pc, closeCh, userRes, spurious,
          monSig,      \* monitor's cap-1 channel of causes
          mon,         \* monitor runner: "wait" | "sleep" | "open" | "done"
          attempts,    \* failed reopen attempts in the current attemptReopen loop
          told,        \* number of causes the runner has consumed
          closes,      \* number of successful closes
          openFails    \* environment: next underlying Open() fails (only used by the monitor's Open)
vars == <<isOpen, gen, mu, tokS, tokG, under, fault, rl, pc, closeCh, userRes, spurious, monSig, mon, attempts, told, closes, openFails>>
lifevars == <<isOpen, gen, mu, tokS, tokG, under, fault, rl, pc, closeCh, userRes, spurious>>
monvars == <<monSig, mon, attempts, told, openFails>>

Init == /\ isOpen = FALSE /\ gen = 0 /\ mu = FREE /\ tokS = 0 /\ tokG = [g \in Gens |-> 0]
        /\ under = "closed" /\ fault = [g \in Gens |-> "none"] /\ rl = [g \in Gens |-> "none"]
        /\ pc = [p \in Closers |-> "out"] /\ closeCh = [g \in Gens |-> <<>>]
        /\ userRes = "none" /\ spurious = FALSE
        /\ monSig = <<>> /\ mon = (IF WithMonitor THEN "wait" ELSE "done") /\ attempts = 0 /\ told = 0 /\ closes = 0
        /\ openFails = FALSE
CauseOf(p) == IF p = USER THEN "nil" ELSE IF fault[p] = "eof" THEN "nil" ELSE "err"

\* Open(): one critical section under f.mu
DoOpen(who) ==
  /\ mu = FREE
  /\ IF isOpen THEN UNCHANGED <<isOpen, gen, under, rl, tokG>>
     ELSE /\ gen < MaxGen /\ gen' = gen + 1 /\ isOpen' = TRUE /\ under' = "open"
          /\ rl' = [rl EXCEPT ![gen + 1] = "reading"]
          /\ tokG' = tokG                       \* a fresh per-generation channel starts empty (tokG[gen+1] = 0 already)
UOpen == /\ pc[USER] = "out" /\ (gen = 0 \/ UserReopens) /\ DoOpen(USER)
         /\ userRes' = IF isOpen THEN "ALREADY_OPEN" ELSE "ok"
         /\ UNCHANGED <<mu, tokS, fault, pc, closeCh, spurious, closes>> /\ UNCHANGED monvars

\* close(cause): enter under f.mu, push the close token (may block!), close the underlying transport, publish
CloseEnter(p) ==
  /\ pc[p] = "out" /\ mu = FREE
  /\ IF ~isOpen \/ (CloseSignal = "pergen+id" /\ p # USER /\ p # gen)
       THEN /\ UNCHANGED <<mu, pc>>
            /\ IF p = USER THEN userRes' = "NOT_OPEN" /\ UNCHANGED rl
                           ELSE rl' = [rl EXCEPT ![p] = "exited"] /\ UNCHANGED userRes
       ELSE mu' = p /\ pc' = [pc EXCEPT ![p] = "push"] /\ UNCHANGED <<userRes, rl>>
  /\ UNCHANGED <<isOpen, gen, tokS, tokG, under, fault, closeCh, spurious, closes>> /\ UNCHANGED monvars
ClosePush(p) ==
  /\ pc[p] = "push" /\ mu = p
  /\ IF CloseSignal = "shared" THEN tokS < 1 /\ tokS' = tokS + 1 /\ UNCHANGED tokG
                               ELSE tokG[gen] < 1 /\ tokG' = [tokG EXCEPT ![gen] = 1] /\ UNCHANGED tokS
  /\ pc' = [pc EXCEPT ![p] = "under"]
  /\ UNCHANGED <<isOpen, gen, mu, under, fault, rl, closeCh, userRes, spurious, closes>> /\ UNCHANGED monvars
\* underlying Close() succeeds: publish the cause once, tell the monitor (non-blocking), clear isOpen
CloseDone(p) ==
  /\ pc[p] = "under" /\ mu = p
  /\ under' = "closed" /\ isOpen' = FALSE /\ mu' = FREE
  /\ closeCh' = [closeCh EXCEPT ![gen] = Append(@, CauseOf(p))]
  /\ monSig' = IF Len(monSig) < 1 THEN Append(monSig, CauseOf(p)) ELSE monSig
  /\ closes' = closes + 1
  /\ spurious' = (spurious \/ (p # USER /\ p # gen))
  /\ pc' = [pc EXCEPT ![p] = "out"]
  /\ IF p = USER THEN userRes' = "closed" /\ UNCHANGED rl ELSE rl' = [rl EXCEPT ![p] = "exited"] /\ UNCHANGED userRes
  /\ UNCHANGED <<gen, tokS, tokG, fault, mon, attempts, told, openFails>>
\* underlying Close() fails: drain the token, return the error, stay open (user only; a read loop then exits)
CloseFail(p) ==
  /\ AllowCloseFail /\ pc[p] = "under" /\ mu = p /\ p = USER
  /\ IF CloseSignal = "shared" THEN tokS' = 0 /\ UNCHANGED tokG ELSE tokG' = [tokG EXCEPT ![gen] = 0] /\ UNCHANGED tokS
  /\ mu' = FREE /\ pc' = [pc EXCEPT ![p] = "out"] /\ userRes' = "closeerr"
  /\ UNCHANGED <<isOpen, gen, under, fault, rl, closeCh, spurious, closes>> /\ UNCHANGED monvars
UClose == CloseEnter(USER)

\* environment: the stream ends, breaks, or carries an undecodable frame
Fault(g, k) == /\ rl[g] = "reading" /\ fault[g] = "none" /\ g = gen /\ under = "open"
               /\ fault' = [fault EXCEPT ![g] = k]
               /\ UNCHANGED <<isOpen, gen, mu, tokS, tokG, under, rl, pc, closeCh, userRes, spurious, closes>> /\ UNCHANGED monvars
\* read loop: the blocking read returns an error
RLErr(g) == /\ rl[g] = "reading" /\ (fault[g] # "none" \/ under = "closed" \/ g # gen)
            /\ rl' = [rl EXCEPT ![g] = "goterr"]
            /\ UNCHANGED <<isOpen, gen, mu, tokS, tokG, under, fault, pc, closeCh, userRes, spurious, closes>> /\ UNCHANGED monvars
\* select { case <-closeSignal: return ; default: }
RLCheck(g) ==
  /\ rl[g] = "goterr"
  /\ IF CloseSignal = "shared"
       THEN /\ UNCHANGED tokG
            /\ IF tokS > 0 THEN tokS' = 0 /\ rl' = [rl EXCEPT ![g] = "exited"]
                           ELSE tokS' = tokS /\ rl' = [rl EXCEPT ![g] = "willclose"]
       ELSE /\ UNCHANGED tokS
            /\ IF tokG[g] > 0 THEN tokG' = [tokG EXCEPT ![g] = 0] /\ rl' = [rl EXCEPT ![g] = "exited"]
                              ELSE tokG' = tokG /\ rl' = [rl EXCEPT ![g] = "willclose"]
  /\ UNCHANGED <<isOpen, gen, mu, under, fault, pc, closeCh, userRes, spurious, closes>> /\ UNCHANGED monvars
RLClose(g) == rl[g] = "willclose" /\ CloseEnter(g)

\* ---- monitor runner ----
MonTake == /\ mon = "wait" /\ monSig # <<>>
           /\ monSig' = Tail(monSig) /\ told' = told + 1
           /\ mon' = IF Head(monSig) = "nil" THEN "done"                 \* OnClosedCleanly, runner terminates
                     ELSE IF MaxAttempts > 0 THEN "sleep" ELSE "done"      \* OnClosedUncleanly -> (reopen?, wait)
           /\ attempts' = 0
           /\ UNCHANGED lifevars /\ UNCHANGED <<closes, openFails>>
MonSleepDone == /\ mon = "sleep" /\ mon' = "open" /\ UNCHANGED lifevars /\ UNCHANGED <<monSig, attempts, told, closes, openFails>>
EnvOpenFails == /\ mon = "sleep" /\ ~openFails /\ openFails' = TRUE /\ UNCHANGED lifevars /\ UNCHANGED <<monSig, mon, attempts, told, closes>>
MonOpen == /\ mon = "open"
           /\ IF openFails
                THEN /\ attempts' = attempts + 1 /\ openFails' = FALSE
                     /\ mon' = IF attempts + 1 >= MaxAttempts THEN "done" ELSE "sleep"     \* OnReopenFailed(prevAttempts, wait)
                     /\ UNCHANGED lifevars
                ELSE /\ DoOpen(MON) /\ ~isOpen            \* Open succeeds (ALREADY_OPEN cannot happen: nobody else reopens)
                     /\ mon' = "wait" /\ attempts' = 0 /\ openFails' = FALSE
                     /\ UNCHANGED <<mu, tokS, fault, pc, closeCh, userRes, spurious>>
           /\ UNCHANGED <<monSig, told, closes>>
Sys == \/ \E p \in Closers : ClosePush(p) \/ CloseDone(p)
       \/ \E g \in Gens : RLErr(g) \/ RLCheck(g) \/ RLClose(g)
       \/ MonTake \/ MonSleepDone \/ MonOpen
Next == \/ UOpen \/ UClose \/ CloseFail(USER) \/ EnvOpenFails
        \/ \E g \in Gens : Fault(g, "eof") \/ Fault(g, "err")
        \/ Sys
Spec == Init /\ [][Next]_vars /\ WF_vars(Sys)
\* ---------------- properties (C15) ----------------
LoopBusy(g) == \/ rl[g] \in {"goterr", "willclose"} \/ pc[g] # "out"
               \/ (rl[g] = "reading" /\ (fault[g] # "none" \/ under = "closed" \/ g # gen))
Quiet == pc[USER] = "out" /\ (\A g \in Gens : ~LoopBusy(g)) /\ mon \in {"wait", "done"} /\ (mon = "wait" => monSig = <<>>)
FailureDetected == (Quiet /\ gen > 0 /\ fault[gen] # "none") => ~isOpen
OpenHasReader == (Quiet /\ isOpen) => rl[gen] = "reading"
OneCause == \A g \in Gens : Len(closeCh[g]) <= 1
ClosedHasCause == \A g \in Gens : (g < gen \/ (g = gen /\ ~isOpen /\ Quiet)) => Len(closeCh[g]) = 1
CauseNilIffClean == \A g \in Gens : closeCh[g] # <<>> => (closeCh[g][1] = "err" => fault[g] = "err")
NoSpuriousClose == ~spurious
AttemptsBounded == attempts <= MaxAttempts
MonitorToldEveryClose == (Quiet /\ mon = "wait") => told = closes
CloseReturns == \A p \in Closers : (pc[p] = "push") ~> (pc[p] = "out")
\* with a monitor and a policy that allows it, an unclean close is followed by a reopen unless opens keep failing or generations run out
Reopened == WithMonitor /\ MaxAttempts > 0 =>
              []((mon = "open" /\ ~openFails /\ gen < MaxGen) => <>(isOpen))
=============================================================================
