SPECIFICATION TSpec
CONSTANTS Callers = {1,2} Unknown = {9} MaxFrames = 10 Blocking = FALSE Cap = 1
INVARIANTS Correlated NoLeak
CONSTRAINT HighWater
POSTCONDITION Accepted
CHECK_DEADLOCK FALSE
