SPECIFICATION Spec
CONSTANTS MaxGen = 3 CloseSignal = "shared" MaxAttempts = 2 UserReopens = FALSE WithMonitor = TRUE AllowCloseFail = FALSE
INVARIANTS FailureDetected OpenHasReader OneCause ClosedHasCause CauseNilIffClean NoSpuriousClose AttemptsBounded MonitorToldEveryClose
PROPERTIES CloseReturns Reopened
CHECK_DEADLOCK FALSE
