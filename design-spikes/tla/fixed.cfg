SPECIFICATION Spec
CONSTANTS MaxGen = 3 Variant = "fixed"
INVARIANTS FailureDetected OpenHasReader OneCause ClosedHasCause NoSpuriousClose
PROPERTIES CloseReturns
CHECK_DEADLOCK FALSE
