SPECIFICATION Spec
CONSTANTS MaxLen = 2
INVARIANTS OncePerLayer Nested
CHECK_DEADLOCK FALSE
