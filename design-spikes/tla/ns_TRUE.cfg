SPECIFICATION Spec
CONSTANTS Msgs = {1,2,3,4} Workers = {1,2} QLen = 1 CloseEarly = TRUE
INVARIANTS AtMostOnce Drained NoLate NoPanic
PROPERTIES Termination
CHECK_DEADLOCK FALSE
