---- MODULE Smoke ----
EXTENDS Naturals, Sequences, TLC, Json, FiniteSets
VARIABLES x, hist
vars == <<x, hist>>
Init == x = 0 /\ hist = <<>>
Inc == x < 3 /\ x' = x + 1 /\ hist' = Append(hist, [ev |-> "Inc", x |-> x'])
Dbl == x > 0 /\ x < 5 /\ x' = 2 * x /\ hist' = Append(hist, [ev |-> "Dbl", x |-> x'])
Next == Inc \/ Dbl
Spec == Init /\ [][Next]_vars
Emit == (Len(hist) = 3) => PrintT("TRACE " \o ToJson(hist))
Bound == Len(hist) <= 3
View == x
====
