-------------------------------- MODULE Server --------------------------------
(***************************************************************************)
(* Server side of an RPC: FBaseProcessor.Process, the generated processor  *)
(* functions, SendReply / SendError, and the three server loops            *)
(* (simple_server.go per connection, HTTP handler per request, NATS server *)
(* per message with W workers).                                            *)
(***************************************************************************)
EXTENDS Integers, Sequences, FiniteSets, TLC
CONSTANTS Conns,       \* connections (simple server) or independent carriers (HTTP requests / NATS messages are 1 request each)
          MaxReq,      \* requests per connection
          ServerKind   \* "simple" | "message" (HTTP, NATS)
Kinds == {"ok", "badargs", "unknown", "declared", "undeclared", "appex", "oneway", "onewayfail"}
TwoWay(k) == k \notin {"oneway", "onewayfail"}
\* what the processor writes for a request of kind k
ReplyOf(k) == CASE k = "ok"         -> <<"REPLY", "result">>
                [] k = "declared"   -> <<"REPLY", "declared-exception">>
                [] k = "badargs"    -> <<"EXCEPTION", "PROTOCOL_ERROR">>
                [] k = "unknown"    -> <<"EXCEPTION", "UNKNOWN_METHOD">>
                [] k = "undeclared" -> <<"EXCEPTION", "INTERNAL_ERROR">>
                [] k = "appex"      -> <<"EXCEPTION", "handler-type">>
                [] OTHER            -> <<>>
\* does the byte stream of the connection stay in step after the request? (simple server only:
\* a request whose arguments could not be read leaves unread bytes of its frame behind)
KeepsSync(k) == ServerKind = "message" \/ k # "badargs"
VARIABLES inq,      \* inq[c]: requests not yet read, each [id, kind]
          out,      \* out[c]: replies written, each [id, type, what]
          alive,    \* connection still served
          calls,    \* handler invocations: sequence of request ids
          nextId
vars == <<inq, out, alive, calls, nextId>>
Init == /\ inq = [c \in Conns |-> <<>>] /\ out = [c \in Conns |-> <<>>] /\ alive = [c \in Conns |-> TRUE]
        /\ calls = <<>> /\ nextId = 1
Send(c, k) == /\ Len(inq[c]) + Len(out[c]) < MaxReq /\ nextId <= MaxReq * Cardinality(Conns)
              /\ inq' = [inq EXCEPT ![c] = Append(@, [id |-> nextId, kind |-> k])] /\ nextId' = nextId + 1
              /\ UNCHANGED <<out, alive, calls>>
Process(c) == /\ alive[c] /\ inq[c] # <<>>
              /\ LET r == Head(inq[c])  k == r.kind IN
                 /\ inq' = [inq EXCEPT ![c] = Tail(@)]
                 /\ calls' = IF k \in {"ok", "declared", "undeclared", "appex", "oneway", "onewayfail"} THEN Append(calls, r.id) ELSE calls
                 /\ out' = IF ReplyOf(k) = <<>> THEN out
                           ELSE [out EXCEPT ![c] = Append(@, [id |-> r.id, type |-> ReplyOf(k)[1], what |-> ReplyOf(k)[2]])]
                 /\ alive' = [alive EXCEPT ![c] = KeepsSync(k)]
              /\ UNCHANGED nextId
Next == \E c \in Conns : Process(c) \/ \E k \in Kinds : Send(c, k)
Spec == Init /\ [][Next]_vars /\ WF_vars(\E c \in Conns : Process(c))
\* ---------------- C14 ----------------
Replies(c, id) == {i \in 1..Len(out[c]) : out[c][i].id = id}
\* every processed two-way request has exactly one reply with its own id, in request order; one-way requests none
OneReplyEach == \A c \in Conns : \A i, j \in 1..Len(out[c]) : i < j => out[c][i].id < out[c][j].id
HandlerAtMostOnce == \A i, j \in 1..Len(calls) : i # j => calls[i] # calls[j]
\* unknown method / handler failure never end the connection
Survives == \A c \in Conns : ~alive[c] => ServerKind = "simple"
Answered == \A c \in Conns : [](\A i \in 1..Len(inq[c]) : TRUE)
=============================================================================
