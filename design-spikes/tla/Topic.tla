-------------------------------- MODULE Topic --------------------------------
(* Topic of a scope operation, as README and the generators define it. Names are sequences of characters. *)
EXTENDS Integers, Sequences, FiniteSets, TLC, Json
Upper(c) == CASE c = "a" -> "A" [] c = "e" -> "E" [] c = "m" -> "M" [] c = "x" -> "X" [] OTHER -> c
Title(name) == IF name = <<>> THEN name ELSE <<Upper(name[1])>> \o Tail(name)
RECURSIVE Join(_, _)
Join(toks, sep) == IF toks = <<>> THEN <<>> ELSE IF Len(toks) = 1 THEN toks[1] ELSE toks[1] \o sep \o Join(Tail(toks), sep)
\* a prefix token is [var |-> FALSE, s |-> chars] or [var |-> TRUE, name |-> chars]
Subst(tok, vals) == IF tok.var THEN vals[tok.name] ELSE tok.s
Prefix(toks, vals) == Join([i \in 1..Len(toks) |-> Subst(toks[i], vals)], <<".">>)
TopicOf(toks, vals, scope, op, d) ==
  (IF toks = <<>> THEN <<>> ELSE Prefix(toks, vals) \o d) \o Title(scope) \o d \o op
ScopeNames == { <<"E","v","t","s">>, <<"e","v","t","s">>, <<"m","y","_","s">>, <<"x">> }
OpNames == { <<"C","r">>, <<"c","n","t">> }
Delims == { <<".">>, <<":">>, <<"/">>, <<"-">> }
U == <<"u","s","r">>  O == <<"o","r","g">>
Lit(s) == [var |-> FALSE, s |-> s]  Var(n) == [var |-> TRUE, name |-> n]
Prefixes == { <<>>, <<Lit(<<"f","o","o">>)>>, <<Lit(<<"f","o","o">>), Var(U)>>, <<Var(U), Var(O), Lit(<<"x">>)>>, <<Lit(<<"a">>), Var(U), Lit(<<"b">>), Var(O)>> }
ValSets == { [n \in {U, O} |-> IF n = U THEN <<"b","i","l","l">> ELSE <<"a","c","m","e">>], [n \in {U, O} |-> IF n = U THEN <<>> ELSE <<"a",".","b">>] }
VARIABLE c
Init == c \in [scope : ScopeNames, op : OpNames, delim : Delims, prefix : Prefixes, vals : ValSets]
Spec == Init /\ [][UNCHANGED c]_c
Emit == PrintT("CASE " \o ToJson([in |-> c, want |-> TopicOf(c.prefix, c.vals, c.scope, c.op, c.delim)]))
=============================================================================
