------------------------------ MODULE ClientMux ------------------------------
EXTENDS Integers, Sequences, FiniteSets, TLC
CONSTANTS Callers,      \* op ids of real in-flight requests (one FContext each)
          Unknown,      \* op ids never issued
          MaxFrames,    \* bound on frames the peer may deliver
          Blocking,     \* TRUE: dispatch does a blocking send (pre-fix behaviour)
          Cap           \* result channel capacity (1 in the code)
VARIABLES cpc, reg, ch, res, rd, delivered
vars == <<cpc, reg, ch, res, rd, delivered>>
Ops == Callers \cup Unknown
Init == /\ cpc = [c \in Callers |-> "idle"]
        /\ reg = {}
        /\ ch = [c \in Callers |-> <<>>]
        /\ res = [c \in Callers |-> 0]
        /\ rd = <<"idle">>
        /\ delivered = 0
Register(c) == cpc[c] = "idle" /\ cpc' = [cpc EXCEPT ![c] = "wait"] /\ reg' = reg \cup {c}
               /\ UNCHANGED <<ch, res, rd, delivered>>
Recv(c) == /\ cpc[c] = "wait" /\ ch[c] # <<>>
           /\ res' = [res EXCEPT ![c] = Head(ch[c])]
           /\ ch' = [ch EXCEPT ![c] = Tail(@)]
           /\ cpc' = [cpc EXCEPT ![c] = "got"]
           /\ UNCHANGED <<reg, rd, delivered>>
Timeout(c) == /\ cpc[c] = "wait"
              /\ res' = [res EXCEPT ![c] = -1]
              /\ cpc' = [cpc EXCEPT ![c] = "got"]
              /\ UNCHANGED <<reg, ch, rd, delivered>>
Unregister(c) == /\ cpc[c] = "got" /\ reg' = reg \ {c} /\ cpc' = [cpc EXCEPT ![c] = "done"]
                 /\ UNCHANGED <<ch, res, rd, delivered>>
\* reader: take next frame from the peer (any op id), look it up under the read lock
Lookup(o) == /\ rd = <<"idle">> /\ delivered < MaxFrames
             /\ delivered' = delivered + 1
             /\ rd' = IF o \in reg THEN <<"send", o>> ELSE <<"idle">>
             /\ UNCHANGED <<cpc, reg, ch, res>>
Deliver == /\ rd[1] = "send"
           /\ LET o == rd[2] IN
              IF Len(ch[o]) < Cap
                THEN ch' = [ch EXCEPT ![o] = Append(@, o)] /\ rd' = <<"idle">>
                ELSE /\ ~Blocking /\ ch' = ch /\ rd' = <<"idle">>   \* drop
           /\ UNCHANGED <<cpc, reg, res, delivered>>
Next == \/ \E c \in Callers : Register(c) \/ Recv(c) \/ Timeout(c) \/ Unregister(c)
        \/ \E o \in Ops : Lookup(o)
        \/ Deliver
Spec == Init /\ [][Next]_vars
\* C01
Correlated == \A c \in Callers : res[c] \in {0, -1, c}
\* C06: reader can always finish the frame it is handling without any caller step
ReaderNeverBlocked == rd[1] = "send" => (Len(ch[rd[2]]) < Cap \/ ~Blocking)
\* C13
NoLeak == (\A c \in Callers : cpc[c] = "done") => reg = {}
=============================================================================
