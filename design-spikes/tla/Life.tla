------------------------------- MODULE Life -------------------------------
EXTENDS Naturals, Sequences, FiniteSets, TLC
CONSTANTS MaxGen, Variant   \* Variant \in {"orig","pergen","fixed"}
Gens == 1..MaxGen
Procs == {0} \cup Gens            \* the user thread and one read loop per generation
VARIABLES isOpen, gen, mu, tokS, tokG, under, fault, rl, pc, closeCh, userRes, spurious
vars == <<isOpen, gen, mu, tokS, tokG, under, fault, rl, pc, closeCh, userRes, spurious>>
\* pc[p] : what p is doing inside close(): "out" | "push" | "under"
\* rl[g] : "none" | "reading" | "goterr" | "willclose" | "exited"
Init == /\ isOpen = FALSE /\ gen = 0 /\ mu = 99 /\ tokS = 0
        /\ tokG = [g \in Gens |-> 0] /\ under = "closed"
        /\ fault = [g \in Gens |-> "none"]
        /\ rl = [g \in Gens |-> "none"]
        /\ pc = [p \in Procs |-> "out"]
        /\ closeCh = [g \in Gens |-> <<>>]
        /\ userRes = "none" /\ spurious = FALSE
cause(g) == IF fault[g] = "err" THEN "err" ELSE IF fault[g] = "eof" THEN "nil" ELSE "localerr"
\* ---------------- user ops (Open is atomic under mu) ----------------
UOpen == /\ pc[0] = "out" /\ mu = 99
         /\ IF isOpen THEN userRes' = "ALREADY_OPEN" /\ UNCHANGED <<isOpen, gen, rl, under>>
            ELSE /\ gen < MaxGen /\ gen' = gen + 1 /\ isOpen' = TRUE /\ under' = "open"
                 /\ rl' = [rl EXCEPT ![gen + 1] = "reading"] /\ userRes' = "ok"
         /\ UNCHANGED <<mu, tokS, tokG, fault, pc, closeCh, spurious>>
\* close(cause) entry for process p; cg = generation p believes it is closing (fixed variant)
CloseEnter(p, cg) ==
   /\ pc[p] = "out" /\ mu = 99
   /\ IF ~isOpen \/ (Variant = "fixed" /\ p # 0 /\ cg # gen)
        THEN /\ UNCHANGED <<mu, pc>>
             /\ IF p = 0 THEN userRes' = "NOT_OPEN" /\ UNCHANGED rl
                ELSE rl' = [rl EXCEPT ![p] = "exited"] /\ UNCHANGED userRes
        ELSE /\ mu' = p /\ pc' = [pc EXCEPT ![p] = "push"] /\ UNCHANGED <<userRes, rl>>
   /\ UNCHANGED <<isOpen, gen, tokS, tokG, under, fault, closeCh, spurious>>
ClosePush(p) ==
   /\ pc[p] = "push" /\ mu = p
   /\ IF Variant = "orig"
        THEN tokS < 1 /\ tokS' = tokS + 1 /\ UNCHANGED tokG
        ELSE tokG[gen] < 1 /\ tokG' = [tokG EXCEPT ![gen] = @ + 1] /\ UNCHANGED tokS
   /\ pc' = [pc EXCEPT ![p] = "under"]
   /\ UNCHANGED <<isOpen, gen, mu, under, fault, rl, closeCh, userRes, spurious>>
CloseUnder(p) ==
   /\ pc[p] = "under" /\ mu = p
   /\ under' = "closed" /\ isOpen' = FALSE /\ mu' = 99
   /\ closeCh' = [closeCh EXCEPT ![gen] = IF @ = <<>> THEN <<IF p = 0 THEN "nil" ELSE cause(p)>> ELSE @]
   /\ spurious' = (spurious \/ (p # 0 /\ p # gen))
   /\ pc' = [pc EXCEPT ![p] = "out"]
   /\ IF p = 0 THEN userRes' = "closed" /\ UNCHANGED rl
      ELSE rl' = [rl EXCEPT ![p] = "exited"] /\ UNCHANGED userRes
   /\ UNCHANGED <<gen, tokS, tokG, fault>>
UClose == CloseEnter(0, 0)
\* ---------------- environment faults ----------------
Fault(g, k) == /\ rl[g] = "reading" /\ fault[g] = "none" /\ g = gen /\ under = "open"
               /\ fault' = [fault EXCEPT ![g] = k]
               /\ UNCHANGED <<isOpen, gen, mu, tokS, tokG, under, rl, pc, closeCh, userRes, spurious>>
\* ---------------- read loop ----------------
RLErr(g) == /\ rl[g] = "reading" /\ (fault[g] # "none" \/ under = "closed" \/ g # gen)
            /\ rl' = [rl EXCEPT ![g] = "goterr"]
            /\ UNCHANGED <<isOpen, gen, mu, tokS, tokG, under, fault, pc, closeCh, userRes, spurious>>
RLCheck(g) == /\ rl[g] = "goterr"
              /\ IF Variant = "orig"
                   THEN /\ UNCHANGED tokG
                        /\ IF tokS > 0 THEN tokS' = tokS - 1 /\ rl' = [rl EXCEPT ![g] = "exited"]
                                       ELSE tokS' = tokS /\ rl' = [rl EXCEPT ![g] = "willclose"]
                   ELSE /\ UNCHANGED tokS
                        /\ IF tokG[g] > 0 THEN tokG' = [tokG EXCEPT ![g] = 0] /\ rl' = [rl EXCEPT ![g] = "exited"]
                                          ELSE tokG' = tokG /\ rl' = [rl EXCEPT ![g] = "willclose"]
              /\ UNCHANGED <<isOpen, gen, mu, under, fault, pc, closeCh, userRes, spurious>>
RLClose(g) == rl[g] = "willclose" /\ CloseEnter(g, g)
Next == \/ UOpen \/ UClose
        \/ \E p \in Procs : ClosePush(p) \/ CloseUnder(p)
        \/ \E g \in Gens : Fault(g, "eof") \/ Fault(g, "err") \/ RLErr(g) \/ RLCheck(g) \/ RLClose(g)
Sys == \/ \E p \in Procs : ClosePush(p) \/ CloseUnder(p)
       \/ \E g \in Gens : RLErr(g) \/ RLCheck(g) \/ RLClose(g)
Spec == Init /\ [][Next]_vars /\ WF_vars(Sys)
CloseReturns == \A p \in Procs : (pc[p] = "push") ~> (pc[p] = "out")
\* ---------------- properties ----------------
NoBlockedLockHolder == \A p \in Procs : (pc[p] = "push" /\ mu = p) =>
                          IF Variant = "orig" THEN tokS < 1 ELSE tokG[gen] < 1
LoopBusy(g) == rl[g] \in {"goterr", "willclose"} \/ pc[g] # "out" \/ (rl[g] = "reading" /\ (fault[g] # "none" \/ under = "closed" \/ g # gen))
Quiet == pc[0] = "out" /\ \A g \in Gens : ~LoopBusy(g)
\* every failure of the current generation is detected: once things settle the transport is closed
FailureDetected == (Quiet /\ gen > 0 /\ fault[gen] # "none") => ~isOpen
\* an open transport always has a live reader
OpenHasReader == (Quiet /\ isOpen) => rl[gen] = "reading"
OneCause == \A g \in Gens : Len(closeCh[g]) <= 1
ClosedHasCause == \A g \in Gens : (g < gen \/ (g = gen /\ ~isOpen /\ Quiet)) => Len(closeCh[g]) = 1
NoSpuriousClose == ~spurious
=============================================================================
