------------------------------- MODULE PubSub -------------------------------
(* NATS scope subscriber (nats_scope_transport.go) + generated recv<Op> callback.          *)
EXTENDS Integers, Sequences, FiniteSets, TLC
CONSTANTS N,            \* number of messages the environment may publish (ids 1..N, in order)
          Workers,      \* worker ids
          QLen,         \* capacity of workC
          OnShort,      \* "exit" (pinned code: worker returns) | "skip" (continue)
          AllowUnsub    \* whether Unsubscribe may happen
Kinds == {"ok", "short", "badhdr", "wrongop", "foreign"}
VARIABLES nextId, kind,        \* kind[id] chosen at publish time
          interest,            \* broker routes the topic to this subscriber
          pending,             \* nats.go pending list of the subscription
          cb,                  \* subscription callback goroutine: 0 or the message it is pushing
          workC, quit,         \* quit = TRUE once quitC is closed
          wk,                  \* worker -> 0 idle | id handling | -1 exited
          delivered,           \* sequence of ids handed to the user's handler, in start order
          unsubRet,            \* Unsubscribe returned
          late                 \* ids published after Unsubscribe returned
vars == <<nextId, kind, interest, pending, cb, workC, quit, wk, delivered, unsubRet, late>>
Ids == 1..N
Init == /\ nextId = 1 /\ kind = [i \in Ids |-> "ok"] /\ interest = TRUE /\ pending = <<>> /\ cb = 0
        /\ workC = <<>> /\ quit = FALSE /\ wk = [w \in Workers |-> 0] /\ delivered = <<>>
        /\ unsubRet = FALSE /\ late = {}
Publish(k) == /\ nextId <= N
              /\ kind' = [kind EXCEPT ![nextId] = k]
              /\ nextId' = nextId + 1
              /\ pending' = IF interest /\ k # "foreign" THEN Append(pending, nextId) ELSE pending
              /\ late' = IF unsubRet THEN late \cup {nextId} ELSE late
              /\ UNCHANGED <<interest, cb, workC, quit, wk, delivered, unsubRet>>
CbTake == /\ cb = 0 /\ pending # <<>> /\ cb' = Head(pending) /\ pending' = Tail(pending)
          /\ UNCHANGED <<nextId, kind, interest, workC, quit, wk, delivered, unsubRet, late>>
CbPush == /\ cb > 0 /\ Len(workC) < QLen /\ workC' = Append(workC, cb) /\ cb' = 0
          /\ UNCHANGED <<nextId, kind, interest, pending, quit, wk, delivered, unsubRet, late>>
\* worker select { case <-quitC: return ; case msg := <-workC: ... } -- random when both are ready
WQuit(w) == /\ wk[w] = 0 /\ quit /\ wk' = [wk EXCEPT ![w] = -1]
            /\ UNCHANGED <<nextId, kind, interest, pending, cb, workC, quit, delivered, unsubRet, late>>
WTake(w) == /\ wk[w] = 0 /\ workC # <<>>
            /\ wk' = [wk EXCEPT ![w] = Head(workC)] /\ workC' = Tail(workC)
            /\ UNCHANGED <<nextId, kind, interest, pending, cb, quit, delivered, unsubRet, late>>
WHandle(w) == /\ wk[w] > 0
              /\ LET m == wk[w]  k == kind[m] IN
                 /\ delivered' = IF k = "ok" THEN Append(delivered, m) ELSE delivered
                 /\ wk' = [wk EXCEPT ![w] = IF k = "short" /\ OnShort = "exit" THEN -1 ELSE 0]
              /\ UNCHANGED <<nextId, kind, interest, pending, cb, workC, quit, unsubRet, late>>
\* Unsubscribe: sub.Unsubscribe() (interest and the client-side pending list go away), close(quitC), return
Unsub == /\ AllowUnsub /\ ~unsubRet
         /\ interest' = FALSE /\ pending' = <<>> /\ quit' = TRUE /\ unsubRet' = TRUE
         /\ UNCHANGED <<nextId, kind, cb, workC, wk, delivered, late>>
Sys == CbTake \/ CbPush \/ \E w \in Workers : WQuit(w) \/ WTake(w) \/ WHandle(w)
Next == (\E k \in Kinds : Publish(k)) \/ Unsub \/ Sys
Spec == Init /\ [][Next]_vars /\ WF_vars(Sys)
\* ---------------- C07 ----------------
InSeq(s, x) == \E i \in 1..Len(s) : s[i] = x
AtMostOnce == \A i, j \in 1..Len(delivered) : i # j => delivered[i] # delivered[j]
OnlyOk == \A i \in 1..Len(delivered) : kind[delivered[i]] = "ok"
InOrder == Cardinality(Workers) = 1 => \A i, j \in 1..Len(delivered) : i < j => delivered[i] < delivered[j]
NoLate == \A m \in late : ~InSeq(delivered, m)
\* every well-formed message published while subscribed reaches the handler, whatever preceded it
Eventually == \A m \in Ids : [](( m < nextId /\ kind[m] = "ok" /\ ~unsubRet /\ ~AllowUnsub) => <>InSeq(delivered, m))
=============================================================================
