SPECIFICATION Spec
CONSTANTS Callers = {1,2} Unknown = {9} MaxFrames = 4 Cap = 1 Dispatch = "nonblocking"
INVARIANTS TypeOK Correlated ReaderNeverBlocked NoLeak TimeoutMeansExpired
PROPERTIES DiscardInert ReaderProgress Returns
CHECK_DEADLOCK FALSE
