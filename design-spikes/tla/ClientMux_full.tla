------------------------------ MODULE ClientMux ------------------------------
(***************************************************************************)
(* Multiplexed client transport of the Go runtime:                         *)
(*   registry.go (Register / Unregister / Execute / dispatch),             *)
(*   adapter_transport.go and nats_transport.go (Request / Oneway).        *)
(* One action per critical section / channel operation of the code.        *)
(* The peer is adversarial: it may deliver a frame for any op id at any    *)
(* time, any number of times.                                              *)
(***************************************************************************)
EXTENDS Integers, Sequences, FiniteSets, TLC
CONSTANTS Callers,        \* op ids of the requests (one FContext each), positive integers
          Unknown,        \* op ids never issued
          MaxFrames,      \* bound on frames the peer delivers
          Cap,            \* capacity of the per-request result channel (1 in the code)
          Dispatch        \* "nonblocking" (select/default: drop when full) | "blocking" (pinned code) | "locked" (send under RLock)
ASSUME Cap \in Nat /\ Dispatch \in {"nonblocking", "blocking", "locked"}
Ops == Callers \cup Unknown
NONE == 0  TIMEOUT == -1  SENDERR == -2
VARIABLES
  cpc,      \* caller pc: "idle" | "wait" (registered, in select) | "got" (select returned, before deferred Unregister) | "done"
  snd,      \* send goroutine of the request: "none" | "run" | "ok" | "err" | "stall"
  expired,  \* the request's deadline has passed (ctx.Done() is ready)
  reg,      \* registered op ids (keys of fRegistryImpl.channels)
  ch,       \* ch[c]: contents of the request's result channel
  res,      \* what Request returned: NONE | op id of the returned frame | TIMEOUT | SENDERR
  rd,       \* reader (readLoop / NATS callback): <<"idle">> | <<"send", o>> holding the channel looked up for o
  rlock,    \* reader holds the registry read lock (only in the "locked" deviation)
  frames    \* frames delivered so far
vars == <<cpc, snd, expired, reg, ch, res, rd, rlock, frames>>

Init == /\ cpc = [c \in Callers |-> "idle"] /\ snd = [c \in Callers |-> "none"]
        /\ expired = [c \in Callers |-> FALSE]
        /\ reg = {} /\ ch = [c \in Callers |-> <<>>] /\ res = [c \in Callers |-> NONE]
        /\ rd = <<"idle">> /\ rlock = FALSE /\ frames = 0

\* ---- caller: Request() ----
Register(c) == /\ cpc[c] = "idle" /\ ~rlock            \* needs the write lock
               /\ reg' = reg \cup {c} /\ cpc' = [cpc EXCEPT ![c] = "wait"] /\ snd' = [snd EXCEPT ![c] = "run"]
               /\ UNCHANGED <<expired, ch, res, rd, rlock, frames>>
\* go f.send(...): Write + Flush succeed, fail, or block forever
SendOk(c)    == snd[c] = "run" /\ snd' = [snd EXCEPT ![c] = "ok"]    /\ UNCHANGED <<cpc, expired, reg, ch, res, rd, rlock, frames>>
SendFail(c)  == snd[c] = "run" /\ snd' = [snd EXCEPT ![c] = "err"]   /\ UNCHANGED <<cpc, expired, reg, ch, res, rd, rlock, frames>>
SendStall(c) == snd[c] = "run" /\ snd' = [snd EXCEPT ![c] = "stall"] /\ UNCHANGED <<cpc, expired, reg, ch, res, rd, rlock, frames>>
Expire(c) == /\ cpc[c] = "wait" /\ ~expired[c] /\ expired' = [expired EXCEPT ![c] = TRUE]
             /\ UNCHANGED <<cpc, snd, reg, ch, res, rd, rlock, frames>>
\* the select in Request: any ready case may be chosen
Recv(c) == /\ cpc[c] = "wait" /\ ch[c] # <<>>
           /\ res' = [res EXCEPT ![c] = Head(ch[c])] /\ ch' = [ch EXCEPT ![c] = Tail(@)]
           /\ cpc' = [cpc EXCEPT ![c] = "got"] /\ UNCHANGED <<snd, expired, reg, rd, rlock, frames>>
RecvErr(c) == /\ cpc[c] = "wait" /\ snd[c] = "err"
              /\ res' = [res EXCEPT ![c] = SENDERR] /\ cpc' = [cpc EXCEPT ![c] = "got"]
              /\ UNCHANGED <<snd, expired, reg, ch, rd, rlock, frames>>
Timeout(c) == /\ cpc[c] = "wait" /\ expired[c]
              /\ res' = [res EXCEPT ![c] = TIMEOUT] /\ cpc' = [cpc EXCEPT ![c] = "got"]
              /\ UNCHANGED <<snd, expired, reg, ch, rd, rlock, frames>>
Unregister(c) == /\ cpc[c] = "got" /\ ~rlock           \* deferred Unregister needs the write lock
                 /\ reg' = reg \ {c} /\ cpc' = [cpc EXCEPT ![c] = "done"]
                 /\ UNCHANGED <<snd, expired, ch, res, rd, rlock, frames>>
\* ---- reader: Execute -> dispatch ----
Lookup(o) == /\ rd = <<"idle">> /\ frames < MaxFrames
             /\ frames' = frames + 1
             /\ IF o \in reg THEN rd' = <<"send", o>> /\ rlock' = (Dispatch = "locked")
                            ELSE rd' = <<"idle">> /\ rlock' = FALSE      \* "unregistered context": frame dropped
             /\ UNCHANGED <<cpc, snd, expired, reg, ch, res>>
Deliver == /\ rd[1] = "send"
           /\ LET o == rd[2] IN
              \/ /\ Len(ch[o]) < Cap /\ ch' = [ch EXCEPT ![o] = Append(@, o)]
              \/ /\ Len(ch[o]) >= Cap /\ Dispatch = "nonblocking" /\ ch' = ch      \* duplicate dropped
           /\ rd' = <<"idle">> /\ rlock' = FALSE
           /\ UNCHANGED <<cpc, snd, expired, reg, res, frames>>
Reader == (\E o \in Ops : Lookup(o)) \/ Deliver
CallerStep(c) == Register(c) \/ SendOk(c) \/ SendFail(c) \/ SendStall(c) \/ Recv(c) \/ RecvErr(c) \/ Timeout(c) \/ Unregister(c)
Next == Reader \/ \E c \in Callers : CallerStep(c) \/ Expire(c)
\* every deadline eventually passes; callers and reader keep running; the send goroutine owes nothing
Fair == /\ WF_vars(Deliver)
        /\ \A c \in Callers : WF_vars(Expire(c)) /\ WF_vars(Timeout(c) \/ Recv(c) \/ RecvErr(c)) /\ WF_vars(Unregister(c)) /\ WF_vars(Register(c))
Spec == Init /\ [][Next]_vars /\ Fair
\* ---------------- properties ----------------
TypeOK == /\ reg \subseteq Callers /\ \A c \in Callers : Len(ch[c]) <= Cap
\* C01: a request completes successfully only with the frame carrying its own op id
Correlated == \A c \in Callers : res[c] \in {NONE, TIMEOUT, SENDERR, c}
\* C01: frames for unknown / finished requests are inert (checked as an action property)
DiscardInert == [][ \A o \in Ops : (Lookup(o) /\ o \notin reg) => UNCHANGED <<cpc, snd, expired, reg, ch, res>> ]_vars
\* C06: the reader can always finish the frame in hand without help from any caller
ReaderNeverBlocked == rd[1] = "send" => ENABLED Deliver
\* C06 (temporal form): the reader always returns to idle
ReaderProgress == []<>(rd = <<"idle">>)
\* C13: every started request returns, whatever the peer and the send goroutine do, and leaves nothing behind
Returns == \A c \in Callers : (cpc[c] = "wait") ~> (cpc[c] = "done")
NoLeak == (\A c \in Callers : cpc[c] \in {"idle", "done"}) => reg = {}
TimeoutMeansExpired == \A c \in Callers : res[c] = TIMEOUT => expired[c]
=============================================================================
