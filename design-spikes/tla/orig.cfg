SPECIFICATION Spec
CONSTANTS MaxGen = 3 Variant = "orig"
INVARIANTS FailureDetected OpenHasReader OneCause ClosedHasCause NoSpuriousClose
PROPERTIES CloseReturns
CHECK_DEADLOCK FALSE
