SPECIFICATION Spec
CONSTANTS N = 4 Workers = {1,2} QLen = 1 OnShort = "skip" AllowUnsub = FALSE
INVARIANTS AtMostOnce OnlyOk InOrder NoLate AckIffDelivered
PROPERTIES Eventually
CHECK_DEADLOCK FALSE
