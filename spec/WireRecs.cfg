SPECIFICATION Spec
INVARIANT AllOK
CHECK_DEADLOCK FALSE
