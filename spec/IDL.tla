--------------------------------- MODULE IDL ---------------------------------
(***************************************************************************)
(* C10 / C11 / C19: an abstract model of Frugal IDL programs.  A program   *)
(* is a record of declaration sequences; it is built by declaration-adding *)
(* actions whose guards are the well-formedness conditions (names resolve, *)
(* names and ids unique in their scope, oneway methods return and throw    *)
(* nothing, prefix variables have two or more characters).  What a parser  *)
(* must report for a program is the program itself plus the derived facts: *)
(* Thrift's implicit enum numbering, union members optional, requiredness  *)
(* defaults.  The second file of a two-file program (inc.frugal) is fixed: *)
(* struct Ext, enum ExtE {P, Q}, typedefs of both and of a list, typedef   *)
(* i64 Thing (a name the main file may declare differently), const EXTC,   *)
(* service ExtSvc; so are the files of a tree of includes (AddTree).       *)
(* The lexical style (separators, comments, quotes, layout) is chosen by   *)
(* the renderer and is not part of the model.                              *)
(***************************************************************************)
EXTENDS Integers, Sequences, FiniteSets, TLC, Json, SequencesExt
CONSTANTS MaxDecls,     \* bound on declarations per kind
          Tricky,       \* TRUE: identifier pools contain names that start with keywords (i32x, doubleValue, voidable ...)
          EmitAt,       \* programs are emitted after this many steps
          WithBreaks,   \* TRUE: the last step of a walk may be one invalidating edit
          Focus,        \* "all", or "enums" / "scopes" / "typedefs" / "enumrefs" / "annotations" / "fields" / "breaks" / "uses" / "consts": restrict the builder to one family of declarations
          Hard          \* "none", or one family of valid constructs the generators are known to mishandle; the last step of a
                        \* walk then adds that construct (C11 keeps these apart from all other programs so that a recorded
                        \* finding cannot hide a new one): "keywords" = identifiers that are reserved words of a target
                        \* language, "container-keys" = set elements / map keys of container type, "nested-typedef" = a typedef of an
                        \* included file whose target is declared in a file the main file does not include
NONE == -99
\* ---- types ----
B(n) == [k |-> "base", n |-> n]
R(n) == [k |-> "ref", n |-> n]
L(t) == [k |-> "list", v |-> t]
S(t) == [k |-> "set", v |-> t]
M(a, b) == [k |-> "map", key |-> a, v |-> b]
BaseTypes == {B("bool"), B("byte"), B("i8"), B("i16"), B("i32"), B("i64"), B("double"), B("string"), B("binary")}
\* ---- identifier pools ----
TypeNames == IF Tricky THEN {"Thing", "i32x", "stringy", "voidy", "onewayT", "optionalT"} ELSE {"Thing", "my_type", "Other", "Rec", "T2"}
FieldNames == IF Tricky THEN {"a", "count", "doubleValue", "optionalThing", "_x", "voidable"} ELSE {"a", "count", "value", "thing", "_x", "name2"}
MethodNames == IF Tricky THEN {"get", "onewayFn", "voidable", "m2"} ELSE {"get", "put", "fetch", "m2"}
EnumNames == {"Color", "e2"}
EnumValNames == {"RED", "green", "V3", "V4"}
ConstNames == {"MAX", "c2", "listC", "mapC"}
SvcNames == {"Svc", "svc2"}
ScopeNames == {"Events", "sc2"}
OpNames == {"Created", "op2"}
\* ---- helpers ----
Idx(s) == 1..Len(s)
Names(s) == {s[i].name : i \in Idx(s)}
Empty == [ns |-> <<>>, include |-> FALSE, tree |-> FALSE, badinclude |-> FALSE, typedefs |-> <<>>, enums |-> <<>>, consts |-> <<>>, structs |-> <<>>, services |-> <<>>, scopes |-> <<>>]
Declared(p) == Names(p.typedefs) \cup Names(p.enums) \cup Names(p.structs)
\* user types a field may refer to
Refs(p) == {R(n) : n \in Declared(p)} \cup (IF p.include THEN {R("inc.Ext"), R("inc.ExtE")} ELSE {})
                                       \cup (IF p.include THEN {R("inc.Thing"), R("inc.ExtAlias"), R("inc.ExtS"), R("inc.ExtL")} ELSE {})
                                       \cup (IF p.tree THEN {R("left.L"), R("right.Rt")} ELSE {})
Leafs(p) == BaseTypes \cup Refs(p)
\* a small but shape-complete pool of types over what is declared
Types(p) == Leafs(p) \cup {L(t) : t \in {B("i32"), B("string")} \cup Refs(p)}
                     \cup {S(B("string")), S(B("i64")), M(B("string"), B("i32")), M(B("i32"), L(B("string")))}
                     \cup {M(B("string"), t) : t \in Refs(p)} \cup {L(M(B("string"), S(B("i32"))))}
                     \cup {S(R(n)) : n \in Names(p.structs)} \cup {M(R(n), B("string")) : n \in Names(p.enums)} \cup {L(L(B("i32")))}
\* the type pool the builder draws from: under the focus "enumrefs" only user types (typedef chains, enums, structs), which makes
\* walks dense in typedefs of typedefs of enums / structs used as fields, arguments, results and operations
TypesF(p) == IF Focus = "enumrefs" THEN Refs(p) ELSE IF Focus = "annotations" THEN {} ELSE Types(p)
\* default values by type (none, or one literal of the right shape)
Defaults(t) == {[k |-> "none"]} \cup
  (CASE t = B("i32") -> {[k |-> "int", i |-> 5], [k |-> "int", i |-> -7]}
     [] t = B("i64") -> {[k |-> "int", i |-> 0]}
     [] t = B("bool") -> {[k |-> "bool", b |-> TRUE]}
     [] t = B("double") -> {[k |-> "double", s |-> "1.5"], [k |-> "double", s |-> "-2.0e3"], [k |-> "int", i |-> 2]}   \* (a double may be written 2)
     [] t = B("string") -> {[k |-> "str", s |-> "dflt"], [k |-> "str", s |-> ""], [k |-> "str", s |-> "it's"]}
     [] t = L(B("i32")) -> {[k |-> "list", items |-> <<[k |-> "int", i |-> 1], [k |-> "int", i |-> 2]>>]}
     [] t = M(B("string"), B("i32")) -> {[k |-> "map", pairs |-> <<<<[k |-> "str", s |-> "a"], [k |-> "int", i |-> 1]>>>>]}
     [] OTHER -> {})
Reqs == {"required", "optional", "default"}
\* ---- literals of every type (constants, and defaults of fields of struct / container type): the focus "consts" ----
\* a struct-valued literal is written as a map from field names to values; a set as a list; an enum value as Enum.VALUE
IntL(i) == [k |-> "int", i |-> i]
StrL(s) == [k |-> "str", s |-> s]
BaseLits(n) == CASE n \in {"byte", "i8"} -> {IntL(7), IntL(-128)}
                 [] n = "i16" -> {IntL(300)}
                 [] n = "i32" -> {IntL(5), IntL(-7)}
                 [] n = "i64" -> {IntL(0), IntL(2147483647)}
                 [] n = "bool" -> {[k |-> "bool", b |-> TRUE], [k |-> "bool", b |-> FALSE]}
                 [] n = "double" -> {[k |-> "double", s |-> "1.5"], IntL(2)}
                 [] n \in {"string", "binary"} -> {StrL("dflt"), StrL("")}
                 [] OTHER -> {}
RECURSIVE Lits(_, _, _)
StructLits(q, s, fuel) ==
  LET fs == q.structs[s].fields
      one(i) == CHOOSE v \in Lits(q, fs[i].t, fuel - 1) : TRUE
      lit(F) == [k |-> "map", pairs |-> [j \in 1..Len(SetToSeq(F)) |-> <<StrL(fs[SetToSeq(F)[j]].name), one(SetToSeq(F)[j])>>]]
      ok == {i \in Idx(fs) : Lits(q, fs[i].t, fuel - 1) # {}}
  IN IF q.structs[s].kind = "union" THEN {lit({i}) : i \in ok}
     ELSE {lit(ok), lit({i \in ok : fs[i].req # "optional"}), lit({i \in ok : fs[i].req = "required"})}
Lits(q, t, fuel) ==
  IF fuel = 0 THEN {}
  ELSE CASE t.k = "base" -> BaseLits(t.n)
    [] t.k \in {"list", "set"} -> LET xs == Lits(q, t.v, fuel - 1) IN
           {[k |-> "list", items |-> <<>>]} \cup {[k |-> "list", items |-> <<x>>] : x \in xs}
           \cup (IF Cardinality(xs) >= 2 THEN {[k |-> "list", items |-> SetToSeq(xs)]} ELSE {})
    [] t.k = "map" -> LET ks == Lits(q, t.key, fuel - 1) vs == Lits(q, t.v, fuel - 1) IN
           {[k |-> "map", pairs |-> <<>>]} \cup {[k |-> "map", pairs |-> <<<<a, b>>>>] : a \in ks, b \in vs}
           \cup (IF Cardinality(ks) >= 2 /\ vs # {} THEN {[k |-> "map", pairs |-> [j \in 1..Cardinality(ks) |-> <<SetToSeq(ks)[j], CHOOSE b \in vs : TRUE>>]]} ELSE {})
    [] t.k = "ref" ->
           IF \E e \in Idx(q.enums) : q.enums[e].name = t.n
           THEN LET e == CHOOSE e \in Idx(q.enums) : q.enums[e].name = t.n IN
                {[k |-> "id", s |-> t.n \o "." \o q.enums[e].vals[v].name, e |-> t.n, v |-> q.enums[e].vals[v].name] : v \in Idx(q.enums[e].vals)}
           ELSE IF \E s \in Idx(q.structs) : q.structs[s].name = t.n
           THEN StructLits(q, CHOOSE s \in Idx(q.structs) : q.structs[s].name = t.n, fuel)
           ELSE IF \E i \in Idx(q.typedefs) : q.typedefs[i].name = t.n
           THEN Lits(q, q.typedefs[CHOOSE i \in Idx(q.typedefs) : q.typedefs[i].name = t.n].t, fuel - 1)
           ELSE IF t.n \in {"inc.Ext", "inc.ExtS"} THEN {[k |-> "map", pairs |-> <<<<StrL("a"), IntL(1)>>>>], [k |-> "map", pairs |-> <<>>]}
           ELSE IF t.n \in {"inc.ExtE", "inc.ExtAlias"} THEN {[k |-> "id", s |-> "inc.ExtE.Q", e |-> "inc.ExtE", v |-> "Q"]}
           ELSE IF t.n = "inc.Thing" THEN {IntL(9)}
           ELSE IF t.n = "inc.ExtL" THEN {[k |-> "list", items |-> <<[k |-> "id", s |-> "inc.ExtE.P", e |-> "inc.ExtE", v |-> "P"]>>]}
           ELSE {}
    [] OTHER -> {}
\* ---- derived facts a parser must report ----
\* Thrift: the first value is 0 unless given; every value without an explicit number is the previous value + 1
RECURSIVE NumberFrom(_, _, _)
NumberFrom(vals, i, prev) ==
  IF i > Len(vals) THEN <<>>
  ELSE LET v == IF vals[i].explicit = NONE THEN prev + 1 ELSE vals[i].explicit
       IN <<[name |-> vals[i].name, value |-> v]>> \o NumberFrom(vals, i + 1, v)
EnumNumbering(vals) == NumberFrom(vals, 1, -1)
\* requiredness as parsed: union members are optional whatever is written; everything else as written
EffReq(kind, req) == IF kind = "union" THEN "optional" ELSE req
\* ---- well-formedness (what the compiler enforces or assumes) ----
UniqueNames(s) == \A i, j \in Idx(s) : i # j => s[i].name # s[j].name
UniqueIds(fs) == \A i, j \in Idx(fs) : i # j => fs[i].id # fs[j].id
FieldsOK(p, fs) == UniqueNames(fs) /\ UniqueIds(fs) /\ \A i \in Idx(fs) : fs[i].t \in Types(p)
\* typedef chains terminate
RECURSIVE Reaches(_, _, _, _)
Reaches(q, from, target, fuel) ==
  /\ fuel > 0
  /\ \E i \in Idx(q.typedefs) : /\ q.typedefs[i].name = from /\ q.typedefs[i].t.k = "ref"
       /\ (q.typedefs[i].t.n = target \/ Reaches(q, q.typedefs[i].t.n, target, fuel - 1))
RECURSIVE Mentions(_, _)
Mentions(t, n) == \/ t.k = "ref" /\ t.n = n
                  \/ t.k \in {"list", "set"} /\ Mentions(t.v, n)
                  \/ t.k = "map" /\ (Mentions(t.key, n) \/ Mentions(t.v, n))
NoTypedefCycle(q) == \A i \in Idx(q.typedefs) : ~Reaches(q, q.typedefs[i].name, q.typedefs[i].name, 4) /\ ~Mentions(q.typedefs[i].t, q.typedefs[i].name)
ExceptionNames(q) == {q.structs[i].name : i \in {j \in Idx(q.structs) : q.structs[j].kind = "exception"}}
DefaultFits(f) == f.dflt \in Defaults(f.t) \/ f.dflt.k = "id" \/ Focus = "consts"
Valid(p) ==
  /\ ~p.badinclude /\ NoTypedefCycle(p)
  /\ \A i \in Idx(p.typedefs) : p.typedefs[i].t \in Types(p)
  /\ \A i \in Idx(p.structs) : \A f \in Idx(p.structs[i].fields) : DefaultFits(p.structs[i].fields[f])
  /\ \A i \in Idx(p.services) : /\ p.services[i].extends \in {"", "inc.ExtSvc"} \cup Names(p.services)
        /\ \A m \in Idx(p.services[i].methods) : \A t \in Idx(p.services[i].methods[m].throws) :
              p.services[i].methods[m].throws[t].t \in {R(x) : x \in ExceptionNames(p)}
  /\ \A i \in Idx(p.scopes) : LET vs == SelectSeq(p.scopes[i].prefix, LAMBDA t : Len(t) > 0 /\ SubSeq(t, 1, 1) = "{") IN
        \A a, b \in Idx(vs) : a # b => vs[a] # vs[b]
  /\ UniqueNames(p.typedefs \o p.enums \o p.structs) /\ UniqueNames(p.consts) /\ UniqueNames(p.services) /\ UniqueNames(p.scopes)
  /\ \A i \in Idx(p.structs) : FieldsOK(p, p.structs[i].fields)
  /\ \A i \in Idx(p.enums) : /\ UniqueNames(p.enums[i].vals)
        /\ LET nb == EnumNumbering(p.enums[i].vals) IN \A a, b \in Idx(nb) : a # b => nb[a].value # nb[b].value
  /\ \A i \in Idx(p.consts) : p.consts[i].t \in Types(p) /\ (p.consts[i].v \in Defaults(p.consts[i].t) \/ p.consts[i].v.k = "id" \/ Focus = "consts")
  /\ \A i \in Idx(p.scopes) : UniqueNames(p.scopes[i].ops) /\ \A o \in Idx(p.scopes[i].ops) : p.scopes[i].ops[o].t \in Types(p)
  /\ \A i \in Idx(p.services) : /\ UniqueNames(p.services[i].methods)
        /\ \A m \in Idx(p.services[i].methods) : LET mm == p.services[i].methods[m] IN
             /\ FieldsOK(p, mm.args) /\ FieldsOK(p, mm.throws)
             /\ mm.oneway => (mm.ret = <<>> /\ mm.throws = <<>>)
             /\ \A r \in Idx(mm.ret) : mm.ret[r] \in Types(p)
\* ---- state machine: build a program declaration by declaration ----
VARIABLES p, steps, broken
vars == <<p, steps, broken>>
\* the focus "enumrefs" starts from a program that already has an enum, a typedef of it, a typedef of that typedef, a struct, a
\* service and a scope, so that a few steps reach every use of a typedef chain (field, default Enum.VALUE, argument, result, operation)
EnumRefsBase == [Empty EXCEPT !.enums = <<[name |-> "Color", vals |-> <<[name |-> "RED", explicit |-> NONE], [name |-> "green", explicit |-> 5]>>]>>,
                              !.typedefs = <<[name |-> "Thing", t |-> R("Color")], [name |-> "T2", t |-> R("Thing")]>>,
                              !.structs = <<[kind |-> "struct", name |-> "Rec", fields |-> <<>>, ann |-> FALSE]>>,
                              !.services = <<[name |-> "Svc", extends |-> "", methods |-> <<>>]>>,
                              !.scopes = <<[name |-> "Events", prefix |-> <<"foo">>, ops |-> <<>>]>>]
\* the focus "annotations" starts from the same program with one method in its service and only adds methods and annotations
AnnBase == [EnumRefsBase EXCEPT !.services = <<[name |-> "Svc", extends |-> "", methods |->
               <<[name |-> "get", oneway |-> FALSE, ret |-> <<R("T2")>>, args |-> <<[id |-> 1, req |-> "default", t |-> R("Thing"), name |-> "a", dflt |-> [k |-> "none"]]>>,
                  throws |-> <<>>, anns |-> 0]>>]>>]
\* the focus "breaks" starts from a program in which every invalidating edit of Break is applicable (a struct with a field, an
\* enum with values, an exception, a method with an argument, a result and a throws clause, a scope) and takes exactly one
\* step: Break (with WithBreaks = TRUE and EmitAt = 1 an exhaustive run yields every invalid program one edit away from it)
BreakBase == [AnnBase EXCEPT !.structs = <<[kind |-> "struct", name |-> "Rec", ann |-> FALSE, fields |->
                                              <<[id |-> 1, req |-> "default", t |-> B("i32"), name |-> "count", dflt |-> [k |-> "none"]]>>],
                                           [kind |-> "exception", name |-> "Other", ann |-> FALSE, fields |-> <<>>]>>,
                              !.services[1].methods[1].throws = <<[id |-> 1, req |-> "default", t |-> R("Other"), name |-> "ex", dflt |-> [k |-> "none"]]>>]
\* the focus "uses": one step from a program with both kinds of includes, a service with one bare method and a scope, every
\* type of the pool is used once as the only argument, the only result or the only operation of an otherwise empty user
UsesBase == [EnumRefsBase EXCEPT !.include = TRUE, !.tree = TRUE,
                                 !.services = <<[name |-> "Svc", extends |-> "", methods |-> <<[name |-> "get", oneway |-> FALSE, ret |-> <<>>, args |-> <<>>, throws |-> <<>>, anns |-> 0]>>]>>]
\* the focus "consts": one step from a program with an enum, a struct with fields of every requiredness (a scalar, an optional
\* scalar, an enum, a union and a list of itself), a union, an exception and the included file, a constant - or a field with a
\* default - of every type of the pool with every literal of Lits
ConstsBase == [EnumRefsBase EXCEPT !.include = TRUE,
    !.structs = <<[kind |-> "union", name |-> "my_type", ann |-> FALSE, fields |->
                     <<[id |-> 1, req |-> "default", t |-> B("i32"), name |-> "a", dflt |-> [k |-> "none"]],
                       [id |-> 2, req |-> "default", t |-> B("string"), name |-> "value", dflt |-> [k |-> "none"]]>>],
                  [kind |-> "exception", name |-> "Other", ann |-> FALSE, fields |->
                     <<[id |-> 1, req |-> "default", t |-> B("string"), name |-> "name2", dflt |-> [k |-> "none"]]>>],
                  [kind |-> "struct", name |-> "Rec", ann |-> FALSE, fields |->
                     <<[id |-> 1, req |-> "required", t |-> B("i32"), name |-> "count", dflt |-> [k |-> "none"]],
                       [id |-> 2, req |-> "optional", t |-> B("string"), name |-> "name2", dflt |-> [k |-> "none"]],
                       [id |-> 3, req |-> "optional", t |-> B("i32"), name |-> "a", dflt |-> [k |-> "none"]],
                       [id |-> 4, req |-> "default", t |-> R("Color"), name |-> "thing", dflt |-> [k |-> "none"]],
                       [id |-> 5, req |-> "optional", t |-> R("my_type"), name |-> "value", dflt |-> [k |-> "none"]]>>],
                  [kind |-> "struct", name |-> "Holder", ann |-> FALSE, fields |-> <<>>]>>]
Init == /\ p = (IF Focus = "consts" THEN ConstsBase ELSE IF Focus = "uses" THEN UsesBase ELSE IF Focus = "enumrefs" THEN EnumRefsBase ELSE IF Focus = "annotations" THEN AnnBase ELSE IF Focus = "breaks" THEN BreakBase
                ELSE IF Focus = "fields" THEN [EnumRefsBase EXCEPT !.include = TRUE, !.tree = TRUE] ELSE Empty)
        /\ steps = 0 /\ broken = "none"
Fields(p0, n, kind) ==
  {fs \in UNION {[1..k -> [id : {1, 2, 3, 7}, req : (IF kind \in {"args", "throws"} THEN {"default"} ELSE Reqs), t : {B("i32")}, name : FieldNames]] : k \in 0..n} : TRUE}
\* (field lists are chosen step by step below; Fields is only documentation of the shape)
AddNs == /\ Len(p.ns) < 2
         /\ \E s \in {"go", "java", "*", "py"}, v \in {"pkg", "a.b.c"} :
              /\ ~\E i \in Idx(p.ns) : p.ns[i].scope = s
              /\ p' = [p EXCEPT !.ns = Append(@, [scope |-> s, value |-> v])]
AddInclude == ~p.include /\ p' = [p EXCEPT !.include = TRUE]
\* a directory tree of includes: left.frugal (struct L) and right.frugal (struct Rt) each include a file called common.frugal,
\* a/common.frugal and b/common.frugal, which define Num and Item differently (i64 / double against i32 / i16)
AddTree == ~p.tree /\ p' = [p EXCEPT !.tree = TRUE]
AddTypedef == /\ Len(p.typedefs) < MaxDecls
              /\ \E n \in TypeNames \ Declared(p), t \in TypesF(p) :
                   p' = [p EXCEPT !.typedefs = Append(@, [name |-> n, t |-> t])]
AddEnum == /\ Len(p.enums) < MaxDecls
           /\ \E n \in EnumNames \ Declared(p) : p' = [p EXCEPT !.enums = Append(@, [name |-> n, vals |-> <<>>])]
AddEnumValue == \E e \in Idx(p.enums) : /\ Len(p.enums[e].vals) < 4
                  /\ \E n \in EnumValNames \ Names(p.enums[e].vals), x \in {NONE, 0, 2, 5} :
                       \* explicit numbers unique within the enum
                       /\ (x # NONE => \A i \in Idx(EnumNumbering(p.enums[e].vals)) : EnumNumbering(p.enums[e].vals)[i].value # x)
                       /\ LET nv == Append(p.enums[e].vals, [name |-> n, explicit |-> x]) IN
                          /\ \A i, j \in Idx(nv) : i # j => EnumNumbering(nv)[i].value # EnumNumbering(nv)[j].value
                          /\ p' = [p EXCEPT !.enums[e].vals = nv]
AddConst == /\ Len(p.consts) < MaxDecls
            /\ \E n \in ConstNames \ Names(p.consts), t \in {B("i32"), B("i64"), B("bool"), B("double"), B("string"), L(B("i32")), M(B("string"), B("i32"))} :
                 \E d \in Defaults(t) \ {[k |-> "none"]} :
                    p' = [p EXCEPT !.consts = Append(@, [name |-> n, t |-> t, v |-> d])]
\* a constant of an enum type, written the Thrift way: EnumName.VALUE
AddEnumConst == /\ Len(p.consts) < MaxDecls + 1 /\ ~\E i \in Idx(p.consts) : p.consts[i].v.k = "id"
                /\ \E e \in Idx(p.enums), n \in ConstNames \ Names(p.consts) :
                     /\ p.enums[e].vals # <<>>
                     /\ p' = [p EXCEPT !.consts = Append(@, [name |-> n, t |-> R(p.enums[e].name),
                                                            v |-> [k |-> "id", s |-> p.enums[e].name \o "." \o p.enums[e].vals[1].name]])]
\* (focus "consts") a constant of any type of the pool with any literal of that type
AddLitConst == p.consts = <<>> /\ \E t \in Types(p) :
                 \E v \in Lits(p, t, 4) :
                   p' = [p EXCEPT !.consts = Append(@, [name |-> "MAX", t |-> t, v |-> v])]
\* (focus "consts") a field of the last struct with such a literal as its default
AddLitField == p.structs[Len(p.structs)].fields = <<>> /\ \E t \in Types(p), r \in {"default", "optional"} :
                 \E v \in Lits(p, t, 4) :
                   p' = [p EXCEPT !.structs[Len(p.structs)].fields = Append(@, [id |-> 1, req |-> r, t |-> t, name |-> "a", dflt |-> v])]
AddStruct == /\ Len(p.structs) < MaxDecls
             /\ \E n \in TypeNames \ Declared(p), k \in {"struct", "union", "exception"} :
                  p' = [p EXCEPT !.structs = Append(@, [kind |-> k, name |-> n, fields |-> <<>>, ann |-> FALSE])]
\* (the focus "fields" pins id and name, so that one exhaustive step from its base yields one struct per type x requiredness x default)
FIds == IF Focus \in {"fields", "uses"} THEN {1} ELSE {1, 2, 3, 7, 16}
FNames == IF Focus \in {"fields", "uses"} THEN {"a"} ELSE FieldNames
AddField == \E s \in Idx(p.structs) : /\ Len(p.structs[s].fields) < 3
              /\ \E id \in FIds, r \in Reqs, t \in TypesF(p), n \in FNames \ Names(p.structs[s].fields) :
                   /\ ~\E i \in Idx(p.structs[s].fields) : p.structs[s].fields[i].id = id
                   /\ \E d \in Defaults(t) :
                        p' = [p EXCEPT !.structs[s].fields = Append(@, [id |-> id, req |-> r, t |-> t, name |-> n, dflt |-> d])]    \* req as written: a parser reports EffReq
\* a field of an enum type - directly or through a typedef chain - with one of the enum's values as default (Enum.VALUE)
RECURSIVE EnumBehind(_, _, _)
EnumBehind(q, t, fuel) ==
  IF t.k # "ref" \/ fuel = 0 THEN ""
  ELSE IF \E e \in Idx(q.enums) : q.enums[e].name = t.n THEN t.n
  ELSE IF \E i \in Idx(q.typedefs) : q.typedefs[i].name = t.n
       THEN EnumBehind(q, q.typedefs[CHOOSE i \in Idx(q.typedefs) : q.typedefs[i].name = t.n].t, fuel - 1)
       ELSE ""
AddEnumDefaultField == \E s \in Idx(p.structs) : /\ Len(p.structs[s].fields) < 3 /\ p.structs[s].kind # "union"
     /\ \E id \in (IF Focus = "fields" THEN {1} ELSE {4, 9}), r \in Reqs, t \in Refs(p), n \in FNames \ Names(p.structs[s].fields) :
          /\ ~\E i \in Idx(p.structs[s].fields) : p.structs[s].fields[i].id = id
          /\ EnumBehind(p, t, 4) # ""
          /\ LET en == EnumBehind(p, t, 4) e == CHOOSE e \in Idx(p.enums) : p.enums[e].name = en IN
             /\ p.enums[e].vals # <<>>
             /\ \E v \in Idx(p.enums[e].vals) :
                  p' = [p EXCEPT !.structs[s].fields = Append(@, [id |-> id, req |-> r, t |-> t, name |-> n,
                          dflt |-> [k |-> "id", s |-> en \o "." \o p.enums[e].vals[v].name, e |-> en, v |-> p.enums[e].vals[v].name]])]
Annotate == \E s \in Idx(p.structs) : ~p.structs[s].ann /\ p' = [p EXCEPT !.structs[s].ann = TRUE]
AddService == /\ Len(p.services) < MaxDecls
              /\ \E n \in SvcNames \ Names(p.services), e \in {"", "inc.ExtSvc"} \cup Names(p.services) :
                   /\ (e = "inc.ExtSvc" => p.include)
                   /\ p' = [p EXCEPT !.services = Append(@, [name |-> n, extends |-> e, methods |-> <<>>])]
Exceptions(q) == {q.structs[i].name : i \in {j \in Idx(q.structs) : q.structs[j].kind = "exception"}}
AddMethod == \E s \in Idx(p.services) : /\ Len(p.services[s].methods) < 3
               /\ \E n \in (IF Focus = "uses" THEN {"m2"} ELSE MethodNames) \ Names(p.services[s].methods), ow \in (IF Focus = "uses" THEN {FALSE} ELSE BOOLEAN),
                     r \in {<<>>} \cup {<<t>> : t \in TypesF(p)} :
                    /\ (ow => r = <<>>)
                    /\ p' = [p EXCEPT !.services[s].methods = Append(@, [name |-> n, oneway |-> ow, ret |-> r, args |-> <<>>, throws |-> <<>>, anns |-> 0])]
\* a method carries 0..3 annotations; the k-th one is (verif.k<k> = "v<k>"), in this order
AnnotateMethod == \E s \in Idx(p.services) : \E m \in Idx(p.services[s].methods) :
                    /\ p.services[s].methods[m].anns < 3
                    /\ p' = [p EXCEPT !.services[s].methods[m].anns = @ + 1]
AddArg == \E s \in Idx(p.services) : \E m \in Idx(p.services[s].methods) :
            LET mm == p.services[s].methods[m] IN
            /\ Len(mm.args) < 2
            /\ \E id \in (IF Focus = "uses" THEN {1} ELSE {1, 2, 5}), r \in (IF Focus = "uses" THEN {"default"} ELSE {"default", "optional"}),
                  t \in TypesF(p), n \in FNames \ Names(mm.args) :
                 /\ ~\E i \in Idx(mm.args) : mm.args[i].id = id
                 /\ p' = [p EXCEPT !.services[s].methods[m].args = Append(@, [id |-> id, req |-> r, t |-> t, name |-> n, dflt |-> [k |-> "none"]])]
AddThrow == \E s \in Idx(p.services) : \E m \in Idx(p.services[s].methods) :
              LET mm == p.services[s].methods[m] IN
              /\ ~mm.oneway /\ Len(mm.throws) < 2
              /\ \E id \in {1, 2}, x \in Exceptions(p), n \in {"ex", "err2"} \ Names(mm.throws) :
                   /\ ~\E i \in Idx(mm.throws) : mm.throws[i].id = id
                   /\ p' = [p EXCEPT !.services[s].methods[m].throws = Append(@, [id |-> id, req |-> "default", t |-> R(x), name |-> n, dflt |-> [k |-> "none"]])]
ScopePrefixes == {<<>>, <<"foo">>, <<"foo", "{usr}">>, <<"{usr}", "{org}", "x">>, <<"a", "{usr}", "b">>,
                  <<"v1", "{tenant_id}", "events">>, <<"{shard2x}">>}
AddScope == /\ Len(p.scopes) < MaxDecls
            /\ \E n \in ScopeNames \ Names(p.scopes), pre \in ScopePrefixes :
                 p' = [p EXCEPT !.scopes = Append(@, [name |-> n, prefix |-> pre, ops |-> <<>>])]
AddOp == \E s \in Idx(p.scopes) : /\ Len(p.scopes[s].ops) < 2
           /\ \E n \in (IF Focus = "uses" THEN {"Created"} ELSE OpNames) \ Names(p.scopes[s].ops), t \in TypesF(p) :
                p' = [p EXCEPT !.scopes[s].ops = Append(@, [name |-> n, t |-> t])]
\* Focus = "all": every action; otherwise one family of declarations only, which makes an exhaustive exploration of that family
\* several steps deep affordable (every state is then emitted, not only the last one of a walk)
AddAny == CASE Focus = "enums" -> AddEnum \/ AddEnumValue
            [] Focus = "scopes" -> AddScope \/ AddOp
            [] Focus = "typedefs" -> AddEnum \/ AddTypedef
            [] Focus = "annotations" -> AddMethod \/ AnnotateMethod
            [] Focus = "breaks" -> FALSE
            [] Focus = "consts" -> AddLitConst \/ AddLitField
            [] Focus = "uses" -> AddArg \/ AddMethod \/ AddOp
            [] Focus = "fields" -> AddField \/ AddEnumDefaultField
            [] Focus = "enumrefs" -> \/ AddEnum \/ AddEnumValue \/ AddTypedef \/ AddStruct \/ AddField \/ AddEnumDefaultField \/ AddEnumConst
                                     \/ AddService \/ AddMethod \/ AddArg \/ AddScope \/ AddOp
            [] OTHER -> \/ AddNs \/ AddInclude \/ AddTree \/ AddTypedef \/ AddEnum \/ AddEnumValue \/ AddConst \/ AddEnumConst \/ AddStruct \/ AddField
                        \/ AddEnumDefaultField \/ Annotate \/ AddService \/ AddMethod \/ AnnotateMethod \/ AddArg \/ AddThrow \/ AddScope \/ AddOp
\* ---- invalidating edits: exactly one, as the last step of a walk (C11: every other input gets a diagnostic) ----
F0(id, t, n) == [id |-> id, req |-> "default", t |-> t, name |-> n, dflt |-> [k |-> "none"]]
Brk(q, how) == p' = q /\ broken' = how
Break ==
  \/ \E s \in Idx(p.structs) : Brk([p EXCEPT !.structs[s].fields = Append(@, F0(15, R("Missing"), "dangling"))], "dangling-type")
  \* an undeclared type inside a container: element of a list / set, key or value of a map, nested one level deeper, and as the
  \* target of a typedef
  \/ \E s \in Idx(p.structs) : \E w \in {<<L(R("Missing")), "dangling-list-element">>, <<S(R("Missing")), "dangling-set-element">>,
                                           <<M(R("Missing"), B("string")), "dangling-map-key">>, <<M(B("string"), R("Missing")), "dangling-map-value">>,
                                           <<L(M(R("Missing"), B("i32"))), "dangling-nested-map-key">>} :
        Brk([p EXCEPT !.structs[s].fields = Append(@, F0(15, w[1], "dangling"))], w[2])
  \/ Brk([p EXCEPT !.typedefs = Append(@, [name |-> "DanglingT", t |-> M(R("Missing"), B("string"))])], "dangling-typedef-map-key")
  \/ \E s \in Idx(p.services) : Brk([p EXCEPT !.services[s].methods = Append(@, [name |-> "dangl", oneway |-> FALSE, ret |-> <<M(R("Missing"), B("i32"))>>, args |-> <<>>, throws |-> <<>>, anns |-> 0])], "dangling-return-map-key")
  \/ \E s \in Idx(p.structs) : p.structs[s].fields # <<>> /\
        Brk([p EXCEPT !.structs[s].fields = Append(@, F0(p.structs[s].fields[1].id, B("i32"), "dupid"))], "duplicate-field-id")
  \/ \E s \in Idx(p.structs) : p.structs[s].fields # <<>> /\
        Brk([p EXCEPT !.structs[s].fields = Append(@, F0(14, B("i32"), p.structs[s].fields[1].name))], "duplicate-field-name")
  \/ Brk([p EXCEPT !.typedefs = Append(@, [name |-> "Cyc", t |-> R("Cyc")])], "typedef-cycle-1")
  \/ Brk([p EXCEPT !.typedefs = Append(Append(@, [name |-> "CycA", t |-> R("CycB")]), [name |-> "CycB", t |-> R("CycA")])], "typedef-cycle-2")
  \/ Brk([p EXCEPT !.typedefs = Append(Append(Append(@, [name |-> "CycA", t |-> R("CycB")]), [name |-> "CycB", t |-> R("CycC")]), [name |-> "CycC", t |-> R("CycA")])], "typedef-cycle-3")
  \/ Brk([p EXCEPT !.typedefs = Append(@, [name |-> "CycL", t |-> L(R("CycL"))])], "typedef-cycle-through-container")
  \* an alias that leads into a cycle it is not part of, declared before the cycle's members
  \/ Brk([p EXCEPT !.typedefs = Append(Append(Append(@, [name |-> "CycT", t |-> R("CycA")]), [name |-> "CycA", t |-> R("CycB")]), [name |-> "CycB", t |-> R("CycA")])], "typedef-cycle-tail")
  \/ \E s \in Idx(p.services) : Brk([p EXCEPT !.services[s].methods = Append(@, [name |-> "badow", oneway |-> TRUE, ret |-> <<B("i32")>>, args |-> <<>>, throws |-> <<>>, anns |-> 0])], "oneway-with-result")
  \/ \E s \in Idx(p.services) : Exceptions(p) # {} /\
        Brk([p EXCEPT !.services[s].methods = Append(@, [name |-> "badow", oneway |-> TRUE, ret |-> <<>>, args |-> <<>>, anns |-> 0,
              throws |-> <<F0(1, R(CHOOSE x \in Exceptions(p) : TRUE), "ex")>>])], "oneway-with-throws")
  \/ Brk([p EXCEPT !.badinclude = TRUE], "bad-include")
  \/ \E s \in Idx(p.structs) : Brk([p EXCEPT !.structs = Append(@, [kind |-> "struct", name |-> p.structs[s].name, fields |-> <<>>, ann |-> FALSE])], "duplicate-struct-name")
  \/ \E e \in Idx(p.enums) : p.enums[e].vals # <<>> /\
        Brk([p EXCEPT !.enums[e].vals = Append(@, [name |-> p.enums[e].vals[1].name, explicit |-> 40])], "duplicate-enum-value-name")
  \/ \E s \in Idx(p.services) : Brk([p EXCEPT !.services[s].extends = "NoSuchService"], "extends-missing")
  \/ \E s \in Idx(p.services) : \E m \in Idx(p.services[s].methods) : ~p.services[s].methods[m].oneway /\
        Brk([p EXCEPT !.services[s].methods[m].throws = Append(@, F0(9, B("i32"), "notex"))], "throws-non-exception")
  \/ \E s \in Idx(p.structs) : Brk([p EXCEPT !.structs[s].fields = Append(@, [id |-> 13, req |-> "default", t |-> B("i32"), name |-> "wrongdflt", dflt |-> [k |-> "str", s |-> "text"]])], "default-of-wrong-type")
  \/ \E s \in Idx(p.services) : \E m \in Idx(p.services[s].methods) : p.services[s].methods[m].args # <<>> /\
        Brk([p EXCEPT !.services[s].methods[m].args = Append(@, F0(12, B("i32"), p.services[s].methods[m].args[1].name))], "duplicate-argument-name")
  \/ \E c \in Idx(p.scopes) : Brk([p EXCEPT !.scopes[c].prefix = <<"{usr}", "x", "{usr}">>], "duplicate-prefix-variable")
  \/ \E s \in Idx(p.services) : \E m \in Idx(p.services[s].methods) : p.services[s].methods[m].throws # <<>> /\
        Brk([p EXCEPT !.services[s].methods[m].throws = Append(@, [p.services[s].methods[m].throws[1] EXCEPT !.name = "again"])], "duplicate-throws-id")
  \/ \E s \in Idx(p.services) : p.services[s].methods # <<>> /\
        Brk([p EXCEPT !.services[s].methods = Append(@, p.services[s].methods[1])], "duplicate-method-name")
  \/ \E s \in Idx(p.services) : Brk([p EXCEPT !.services = Append(@, [name |-> p.services[s].name, extends |-> "", methods |-> <<>>])], "duplicate-service-name")
  \/ \E c \in Idx(p.scopes) : Brk([p EXCEPT !.scopes = Append(@, [name |-> p.scopes[c].name, prefix |-> <<>>, ops |-> <<>>])], "duplicate-scope-name")
  \/ \E c \in Idx(p.scopes) : Brk([p EXCEPT !.scopes[c].ops = Append(Append(@, [name |-> "Twice", t |-> B("i32")]), [name |-> "Twice", t |-> B("i64")])], "duplicate-op-name")
  \/ \E c \in Idx(p.scopes) : Brk([p EXCEPT !.scopes[c].ops = Append(@, [name |-> "Dangling", t |-> R("Missing")])], "dangling-op-type")
  \/ Brk([p EXCEPT !.consts = Append(Append(@, [name |-> "KDUP", t |-> B("i32"), v |-> [k |-> "int", i |-> 1]]), [name |-> "KDUP", t |-> B("i32"), v |-> [k |-> "int", i |-> 2]])], "duplicate-const-name")
  \/ Brk([p EXCEPT !.consts = Append(@, [name |-> "KBAD", t |-> B("i32"), v |-> [k |-> "str", s |-> "text"]])], "const-of-wrong-type")
  \/ \E e \in Idx(p.enums) : p.enums[e].vals # <<>> /\
        Brk([p EXCEPT !.enums[e].vals = Append(@, [name |-> "SAME_NUMBER", explicit |-> EnumNumbering(p.enums[e].vals)[1].value])], "duplicate-enum-number")
  \/ \E s \in Idx(p.services) : Brk([p EXCEPT !.services[s].methods = Append(@, [name |-> "dangl", oneway |-> FALSE, ret |-> <<R("Missing")>>, args |-> <<>>, throws |-> <<>>, anns |-> 0])], "dangling-return-type")
  \/ \E s \in Idx(p.services) : Brk([p EXCEPT !.services[s].methods = Append(@, [name |-> "dangl", oneway |-> FALSE, ret |-> <<>>, args |-> <<F0(1, R("Missing"), "a")>>, throws |-> <<>>, anns |-> 0])], "dangling-argument-type")
\* ---- valid but hard constructs: exactly one family, as the last step of a walk ----
KwNames == <<"type", "def", "class", "func", "return">>
KwFields == [i \in 1..5 |-> F0(i, B("i32"), KwNames[i])]
Harden ==
  \/ /\ Hard = "keywords"
     /\ Brk([p EXCEPT !.structs = Append(@, [kind |-> "struct", name |-> "KwS", fields |-> KwFields, ann |-> FALSE]),
                      !.services = Append(@, [name |-> "KwSvc", extends |-> "", methods |->
                                     <<[name |-> "kw", oneway |-> FALSE, ret |-> <<>>, args |-> KwFields, throws |-> <<>>, anns |-> 0]>>])], "hard:keywords")
  \/ /\ Hard = "container-keys"
     /\ Brk([p EXCEPT !.structs = Append(@, [kind |-> "struct", name |-> "CkS", ann |-> FALSE, fields |->
                  <<F0(1, S(L(B("i32"))), "sl"), F0(2, M(L(B("string")), B("i32")), "ml")>>])], "hard:container-keys")
  \* left.LeftOops is a typedef in left.frugal of the exception Oops declared in a/common.frugal, a file the main file does not
  \* include: the main file has no name for the target of the typedef
  \/ /\ Hard = "nested-typedef"
     /\ Brk([p EXCEPT !.tree = TRUE,
                      !.structs = Append(@, [kind |-> "struct", name |-> "NtS", ann |-> FALSE, fields |-> <<F0(1, R("left.LeftOops"), "oops")>>]),
                      !.services = Append(@, [name |-> "NtSvc", extends |-> "", methods |->
                                     <<[name |-> "nt", oneway |-> FALSE, ret |-> <<>>, args |-> <<>>, anns |-> 0,
                                        throws |-> <<F0(1, R("left.LeftOops"), "o")>>]>>])], "hard:nested-typedef")
IsHard(b) == b \in {"hard:keywords", "hard:container-keys", "hard:nested-typedef"}
Next == /\ steps' = steps + 1 /\ broken = "none"
        /\ \/ (steps = EmitAt - 1 /\ WithBreaks /\ Break)
           \/ (steps = EmitAt - 1 /\ Hard # "none" /\ Harden)
           \/ (~(steps = EmitAt - 1 /\ Hard # "none") /\ UNCHANGED broken /\ AddAny)

Spec == Init /\ [][Next]_vars
\* every reachable program is valid (the guards are the well-formedness conditions)
\* (Valid knows the type pool of the builder; the hard families step outside it in their field types only)
AlwaysValid == IF IsHard(broken) THEN TRUE ELSE (broken = "none") <=> Valid(p)
\* what the parser must report: the program with its enums numbered
Expected(q) == [q EXCEPT !.enums = [i \in Idx(q.enums) |-> [name |-> q.enums[i].name, vals |-> q.enums[i].vals, numbered |-> EnumNumbering(q.enums[i].vals)]]]
Emit == (steps = EmitAt \/ (Focus # "all" /\ steps <= EmitAt)) => PrintT("PROG " \o ToJson([Expected(p) EXCEPT !.ns = p.ns] @@ [broken |-> broken]))
Bounded == steps <= EmitAt
=============================================================================
