SPECIFICATION GSpec
CONSTANTS Callers = {1,2,3} Unknown = {9} MaxFrames = 8 Cap = 1 Dispatch = "nonblocking" Variant = "adapter" Depth = 30
INVARIANTS Emit
CHECK_DEADLOCK FALSE
