SPECIFICATION Spec
CONSTANTS N = 5 Workers = {1,2,3} QLen = 2 OnShort = "skip" AllowUnsub = TRUE
INVARIANTS AtMostOnce OnlyOk InOrder NoLate AckIffDelivered

CHECK_DEADLOCK FALSE
