-------------------------------- MODULE Topic --------------------------------
(***************************************************************************)
(* C08: the pub/sub topic of a scope operation, as README.md and the four  *)
(* generators define it:                                                   *)
(*   topic = (prefix with its variables substituted, then the delimiter,   *)
(*            when the scope has a prefix)                                 *)
(*           . scope name with its first letter upper-cased                *)
(*           . delimiter . operation name                                  *)
(* The prefix tokens stay "."-separated as written in the IDL.  Names are  *)
(* sequences of one-character strings (TLC cannot index into strings).     *)
(* The publisher and the subscriber of every target language compute this  *)
(* same function.                                                          *)
(***************************************************************************)
EXTENDS Integers, Sequences, FiniteSets, TLC, Json, SequencesExt
CONSTANT Scope      \* "quick" | "thorough"
Upper(c) == CASE c = "a" -> "A" [] c = "e" -> "E" [] c = "m" -> "M" [] c = "x" -> "X" [] OTHER -> c
Title(name) == IF name = <<>> THEN name ELSE <<Upper(name[1])>> \o Tail(name)
RECURSIVE Join(_, _)
Join(toks, sep) == IF toks = <<>> THEN <<>> ELSE IF Len(toks) = 1 THEN toks[1] ELSE toks[1] \o sep \o Join(Tail(toks), sep)
\* a prefix token is [var |-> FALSE, s |-> chars] or [var |-> TRUE, name |-> chars]
Subst(tok, vals) == IF tok.var THEN vals[tok.name] ELSE tok.s
PrefixStr(toks, vals) == Join([i \in 1..Len(toks) |-> Subst(toks[i], vals)], <<".">>)
TopicOf(toks, vals, scope, op, d) ==
  (IF toks = <<>> THEN <<>> ELSE PrefixStr(toks, vals) \o d) \o Title(scope) \o d \o op
\* the same function computed by the publisher and by the subscriber: agreement is the theorem pub = sub
PubTopic(toks, vals, scope, op, d) == TopicOf(toks, vals, scope, op, d)
SubTopic(toks, vals, scope, op, d) == TopicOf(toks, vals, scope, op, d)
ScopeNames == { <<"E","v","t","s">>, <<"e","v","t","s">>, <<"m","y","_","s">>, <<"x">> }
OpNames == { <<"C","r">>, <<"c","n","t">> }
Delims == IF Scope = "quick" THEN { <<".">>, <<":">> } ELSE { <<".">>, <<":">>, <<"/">>, <<"-">> }
U == <<"u","s","r">>  O == <<"o","r","g">>
Lit(s) == [var |-> FALSE, s |-> s, name |-> <<>>]  Var(n) == [var |-> TRUE, name |-> n, s |-> <<>>]
PrefixSet == { <<>>, <<Lit(<<"f","o","o">>)>>, <<Lit(<<"f","o","o">>), Var(U)>>, <<Var(U), Var(O), Lit(<<"x">>)>>, <<Lit(<<"a">>), Var(U), Lit(<<"b">>), Var(O)>> }
           \cup (IF Scope = "quick" THEN {} ELSE { <<Var(U)>>, <<Lit(<<"a">>), Lit(<<"b">>), Lit(<<"c">>)>>, <<Var(O), Var(U)>> })
ValSets == { [n \in {U, O} |-> IF n = U THEN <<"b","i","l","l">> ELSE <<"a","c","m","e">>],
             [n \in {U, O} |-> IF n = U THEN <<>> ELSE <<"a",".","b",":","c">>] }
Cases == [scope : ScopeNames, op : OpNames, delim : Delims, prefix : PrefixSet, vals : ValSets]
Str(cs) == IF cs = <<>> THEN "" ELSE FoldLeft(LAMBDA acc, c : acc \o c, "", cs)
Out(c) == [scope |-> Str(c.scope), op |-> Str(c.op), delim |-> Str(c.delim),
           prefix |-> [i \in 1..Len(c.prefix) |-> [var |-> c.prefix[i].var, s |-> Str(c.prefix[i].s), name |-> Str(c.prefix[i].name)]],
           vals |-> [usr |-> Str(c.vals[U]), org |-> Str(c.vals[O])],
           want |-> Str(TopicOf(c.prefix, c.vals, c.scope, c.op, c.delim))]
ASSUME \A c \in Cases : PubTopic(c.prefix, c.vals, c.scope, c.op, c.delim) = SubTopic(c.prefix, c.vals, c.scope, c.op, c.delim)
\* the topic always ends with <delimiter><operation> and contains the title-cased scope name right before it
ASSUME \A c \in Cases : LET t == TopicOf(c.prefix, c.vals, c.scope, c.op, c.delim)
                            tail == Title(c.scope) \o c.delim \o c.op IN
                        Len(t) >= Len(tail) /\ SubSeq(t, Len(t) - Len(tail) + 1, Len(t)) = tail
ASSUME JsonSerialize("topic_cases.json", SetToSeq({Out(c) : c \in Cases}))
ASSUME PrintT("CASES " \o ToString(Cardinality(Cases)))
VARIABLE x
Spec == x = 0 /\ [][FALSE]_x
=============================================================================
