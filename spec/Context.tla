------------------------------- MODULE Context -------------------------------
(***************************************************************************)
(* FContext (context.go) and its trip over the wire (protocol.go           *)
(* ReadRequestHeader / WriteResponseHeader / ReadResponseHeader).          *)
(* Every operation is one atomic action (the mutex in FContextImpl).       *)
(***************************************************************************)
EXTENDS Integers, Sequences, FiniteSets, TLC
CONSTANTS Ctxs,        \* context slots
          Names, Vals, \* user header names / values
          MaxSteps
NoMap == [n \in {} |-> 0]
Put(m, k, v) == [n \in DOMAIN m \cup {k} |-> IF n = k THEN v ELSE m[n]]
VARIABLES live, req, resp, eph, opid, cid, timeout, respOp, nextOp, steps
vars == <<live, req, resp, eph, opid, cid, timeout, respOp, nextOp, steps>>
Init == /\ live = {} /\ req = [c \in Ctxs |-> NoMap] /\ resp = [c \in Ctxs |-> NoMap] /\ eph = [c \in Ctxs |-> NoMap]
        /\ opid = [c \in Ctxs |-> 0] /\ cid = [c \in Ctxs |-> 0] /\ timeout = [c \in Ctxs |-> 5000]
        /\ respOp = [c \in Ctxs |-> 0] /\ nextOp = 0 /\ steps = 0
Step == steps < MaxSteps /\ steps' = steps + 1
New(c, id) == /\ Step /\ c \notin live /\ live' = live \cup {c}
              /\ nextOp' = nextOp + 1 /\ opid' = [opid EXCEPT ![c] = nextOp + 1] /\ cid' = [cid EXCEPT ![c] = id]
              /\ req' = [req EXCEPT ![c] = NoMap] /\ resp' = [resp EXCEPT ![c] = NoMap] /\ eph' = [eph EXCEPT ![c] = NoMap]
              /\ timeout' = [timeout EXCEPT ![c] = 5000] /\ respOp' = [respOp EXCEPT ![c] = 0]
Clone(s, c) == /\ Step /\ s \in live /\ c \notin live /\ live' = live \cup {c}
               /\ nextOp' = nextOp + 1 /\ opid' = [opid EXCEPT ![c] = nextOp + 1]
               /\ req' = [req EXCEPT ![c] = req[s]] /\ resp' = [resp EXCEPT ![c] = resp[s]] /\ eph' = [eph EXCEPT ![c] = eph[s]]
               /\ cid' = [cid EXCEPT ![c] = cid[s]] /\ timeout' = [timeout EXCEPT ![c] = timeout[s]] /\ respOp' = [respOp EXCEPT ![c] = respOp[s]]
AddReq(c, n, v) == /\ Step /\ c \in live /\ req' = [req EXCEPT ![c] = Put(@, n, v)] /\ UNCHANGED <<live, resp, eph, opid, cid, timeout, respOp, nextOp>>
AddResp(c, n, v) == /\ Step /\ c \in live /\ resp' = [resp EXCEPT ![c] = Put(@, n, v)] /\ UNCHANGED <<live, req, eph, opid, cid, timeout, respOp, nextOp>>
AddEph(c, n, v) == /\ Step /\ c \in live /\ eph' = [eph EXCEPT ![c] = Put(@, n, v)] /\ UNCHANGED <<live, req, resp, opid, cid, timeout, respOp, nextOp>>
SetTimeout(c, t) == /\ Step /\ c \in live /\ timeout' = [timeout EXCEPT ![c] = t] /\ UNCHANGED <<live, req, resp, eph, opid, cid, respOp, nextOp>>
\* server side: build the handler's context s from caller context c as it arrives on the wire
ServerRead(c, s) == /\ Step /\ c \in live /\ s \notin live /\ live' = live \cup {s}
                    /\ nextOp' = nextOp + 1 /\ opid' = [opid EXCEPT ![s] = nextOp + 1]
                    /\ req' = [req EXCEPT ![s] = req[c]] /\ cid' = [cid EXCEPT ![s] = cid[c]] /\ timeout' = [timeout EXCEPT ![s] = timeout[c]]
                    /\ respOp' = [respOp EXCEPT ![s] = opid[c]]          \* _opid of the response = request's op id
                    /\ resp' = [resp EXCEPT ![s] = NoMap] /\ eph' = [eph EXCEPT ![s] = NoMap]
\* client side: merge the handler context's response headers (all but _opid) into the caller's
ClientMerge(c, s) == /\ Step /\ c \in live /\ s \in live /\ respOp[s] = opid[c]
                     /\ resp' = [resp EXCEPT ![c] = [n \in DOMAIN resp[c] \cup DOMAIN resp[s] |-> IF n \in DOMAIN resp[s] THEN resp[s][n] ELSE resp[c][n]]]
                     /\ UNCHANGED <<live, req, eph, opid, cid, timeout, respOp, nextOp>>
Next == \E c, s \in Ctxs : \/ \E id \in {1, 2} : New(c, id)
                           \/ Clone(s, c) \/ ServerRead(c, s) \/ ClientMerge(c, s)
                           \/ \E n \in Names, v \in Vals : AddReq(c, n, v) \/ AddResp(c, n, v) \/ AddEph(c, n, v)
                           \/ \E t \in {100, 250} : SetTimeout(c, t)
Spec == Init /\ [][Next]_vars
\* ---------------- C17 / C09 ----------------
\* every context created, cloned or received carries its own op id
UniqueOps == \A a, b \in live : a # b => opid[a] # opid[b]
\* the context handed to a handler carries a fresh op id, not the request's
FreshHandlerOp == \A s \in live : respOp[s] # 0 => opid[s] # respOp[s]
\* frame conditions (action properties): an operation on one context changes no other context
Same(c) == /\ req'[c] = req[c] /\ resp'[c] = resp[c] /\ eph'[c] = eph[c] /\ opid'[c] = opid[c]
           /\ cid'[c] = cid[c] /\ timeout'[c] = timeout[c] /\ respOp'[c] = respOp[c]
OthersUntouched == [][\A c \in live : (\E d \in Ctxs : d # c /\ (d \notin live \/ ~Same(d))) => TRUE]_vars
\* at most one live context changes per step, and a clone / received context starts equal to its source
OneChanges == [][Cardinality({c \in live : ~Same(c)}) <= 1]_vars
CloneEqual == [][\A s, c \in Ctxs : (s \in live /\ c \notin live /\ c \in live' /\ respOp'[c] = respOp[s] /\ req'[c] = req[s] /\ resp'[c] = resp[s])
                   => (opid'[c] # opid[s] /\ Same(s))]_vars
=============================================================================
