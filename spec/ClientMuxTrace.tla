--------------------------- MODULE ClientMuxTrace ---------------------------
(* Trace validation for ClientMux: events recorded by the verif hooks of    *)
(* registry.go / adapter_transport.go / nats_transport.go (under the        *)
(* registry lock where there is one) plus the driver's "ret" events are     *)
(* checked to be a behaviour of ClientMux.  Many traces are concatenated    *)
(* with "reset" events.  The channel send is not logged at a linearization  *)
(* point (it is lock-free): it is a silent step, at most one per hit.       *)
EXTENDS ClientMux, Json, TLCExt
TraceLog == ndJsonDeserialize("mux_trace.ndjson")
VARIABLE l
tvars == <<vars, l>>
TInit == Init /\ l = 1
Ev(e) == l <= Len(TraceLog) /\ TraceLog[l].ev = e
Op == TraceLog[l].op
Adv == l' = l + 1
TAdd == Ev("reg.add") /\ Register(Op) /\ Cardinality(reg') = TraceLog[l].n /\ Adv
TDel == Ev("reg.del") /\ Unregister(Op) /\ Cardinality(reg') = TraceLog[l].n /\ Adv
TMiss == Ev("reg.miss") /\ Op \notin reg /\ Lookup(Op) /\ Adv
\* the hook does not know whether the value sent is a frame or the 503 marker: TLC infers it from "ret"
THit == Ev("reg.hit") /\ Op \in reg /\ (\E v \in {Op, UNAVAILABLE} : LookupV(Op, v)) /\ Adv
TResult == Ev("req.result") /\ Recv(Op) /\ Adv
\* send goroutine outcome and deadline expiry are not logged: composed into the event that reveals them
TErr == /\ Ev("req.err") /\ cpc[Op] = "wait"
        /\ snd' = [snd EXCEPT ![Op] = "err"] /\ res' = [res EXCEPT ![Op] = SENDERR]
        /\ cpc' = [cpc EXCEPT ![Op] = "got"] /\ UNCHANGED <<expired, reg, ch, rd, rlock, frames>> /\ Adv
TTimeout == /\ Ev("req.timeout") /\ cpc[Op] = "wait"
            /\ expired' = [expired EXCEPT ![Op] = TRUE] /\ res' = [res EXCEPT ![Op] = TIMEOUT]
            /\ cpc' = [cpc EXCEPT ![Op] = "got"] /\ UNCHANGED <<snd, reg, ch, rd, rlock, frames>> /\ Adv
\* the driver saw Request return: got = op id carried by the returned frame / -1 / -2 / -3
TRet == Ev("ret") /\ cpc[Op] = "done" /\ res[Op] = TraceLog[l].n /\ UNCHANGED vars /\ Adv
\* end of one run: everything returned, the registry must be empty (driver reports VerifRegistrySize)
TReset == /\ Ev("reset") /\ TraceLog[l].n = 0 /\ reg = {}
          /\ cpc' = [c \in Callers |-> "idle"] /\ snd' = [c \in Callers |-> "none"]
          /\ expired' = [c \in Callers |-> FALSE] /\ reg' = {} /\ ch' = [c \in Callers |-> <<>>]
          /\ res' = [c \in Callers |-> NONE] /\ rd' = <<"idle">> /\ rlock' = FALSE /\ frames' = 0 /\ Adv
TSilentDeliver == Deliver /\ UNCHANGED l
TNext == TAdd \/ TDel \/ TMiss \/ THit \/ TResult \/ TErr \/ TTimeout \/ TRet \/ TReset \/ TSilentDeliver
TSpec == TInit /\ [][TNext]_tvars
HighWater == TLCSet(1, IF l > TLCGet(1) THEN l ELSE TLCGet(1))
Accepted == IF TLCGet(1) = Len(TraceLog) + 1 THEN TRUE
            ELSE PrintT("REJECTED-AT " \o ToString(TLCGet(1))) /\ FALSE
ASSUME TLCSet(1, 0)
=============================================================================
