SPECIFICATION Spec
INVARIANTS NeverCrashedOrWedged MessageReceiversKeepServing ClosedHasCause
CONSTRAINT Bound
CHECK_DEADLOCK FALSE
