------------------------------ MODULE WireCases ------------------------------
(* C04 case enumeration: every header map with <= MaxEntries entries over a   *)
(* small alphabet of names and values, the round-trip theorem checked by TLC *)
(* on each, and the cases written out for the Go / Python codecs.            *)
EXTENDS Wire, SequencesExt, FiniteSetsExt, Json
CONSTANT MaxEntries
Long == [i \in 1..40 |-> 97 + (i % 26)]
Names == { <<>>, <<97>>, <<195, 169>>, <<95, 111, 112, 105, 100>>, Long }
Values == { <<>>, <<98>>, <<195, 169, 240, 159, 146, 169>>, <<49, 50, 51>>, Long }
Payload == <<128, 1, 0, 2, 255>>
NameSets == {S \in SUBSET Names : Cardinality(S) <= MaxEntries}
Maps == UNION {[S -> Values] : S \in NameSets}
PairsOf(m) == LET ns == SetToSeq(DOMAIN m) IN [i \in 1..Len(ns) |-> <<ns[i], m[ns[i]]>>]
RoundTrip(m) == LET ps == PairsOf(m)
                    b == Marshal(ps) \o Payload
                    p == Parse(b) IN
                /\ p.ok /\ p.hdr = m /\ p.rest = Payload
                /\ I32(b, 2) = HeaderSize(ps) /\ b[1] = 0
                /\ ParseFrame(Frame(b)).ok /\ ParseFrame(Frame(b)).hdr = m
ASSUME \A m \in Maps : RoundTrip(m)
Case(m) == [pairs |-> PairsOf(m), payload |-> Payload, size |-> HeaderSize(PairsOf(m))]
ASSUME JsonSerialize("wire_cases.json", SetToSeq({Case(m) : m \in Maps}))
ASSUME PrintT("CASES " \o ToString(Cardinality(Maps)))
VARIABLE x
Spec == x = 0 /\ [][FALSE]_x
=============================================================================
