SPECIFICATION Spec
CONSTANTS Callers = {1,2} Unknown = {9} MaxFrames = 3 Cap = 1 Dispatch = "blocking" Variant = "adapter"
INVARIANTS TypeOK Correlated ChannelOwn ReaderNeverBlocked NoLeak RegisteredIffInFlight TimeoutMeansExpired
PROPERTIES DiscardInert ReaderProgress Returns
CHECK_DEADLOCK FALSE
