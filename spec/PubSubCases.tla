----------------------------- MODULE PubSubCases -----------------------------
(* C07 case enumeration: every sequence of message kinds up to length Len with *)
(* an optional Unsubscribe position; the expected handler log is what PubSub's *)
(* properties force: exactly the well-formed messages published on the topic   *)
(* while subscribed (in publish order for one worker).                         *)
EXTENDS Integers, Sequences, FiniteSets, TLC, SequencesExt, Json
CONSTANTS MaxLen, WithUnsub, Bursts
Kinds == {"ok", "short", "badhdr", "wrongop", "foreign"}
Seqs == UNION {[1..n -> Kinds] : n \in 1..MaxLen}
\* unsub = 0: never; u in 1..Len(s): Unsubscribe returns before message u is published
UPos(s) == IF WithUnsub THEN 0..Len(s) ELSE {0}
Expected(s, u) == SelectSeq([i \in 1..Len(s) |-> IF s[i] = "ok" /\ (u = 0 \/ i < u) THEN i ELSE 0], LAMBDA x : x > 0)
CasesOf(s) == {[kinds |-> s, unsub |-> u, expect |-> Expected(s, u), stall |-> FALSE] : u \in UPos(s)}
\* a backlog: the handler is held inside the first message until b well-formed messages have been published (the broker's
\* queue, the subscription's pending list and the work queue all fill up); every one of them is still delivered, once, in order
StallCases == {[kinds |-> [i \in 1..b |-> "ok"], unsub |-> 0, expect |-> [i \in 1..b |-> i], stall |-> TRUE] : b \in Bursts}
Cases == UNION {CasesOf(s) : s \in Seqs} \cup StallCases
ASSUME JsonSerialize("pubsub_cases.json", SetToSeq(Cases))
ASSUME PrintT("CASES " \o ToString(Cardinality(Cases)))
VARIABLE x
Spec == x = 0 /\ [][FALSE]_x
=============================================================================
