----------------------------- MODULE PubSubCases -----------------------------
(* C07 case enumeration: every sequence of message kinds up to length Len with *)
(* an optional Unsubscribe position; the expected handler log is what PubSub's *)
(* properties force: exactly the well-formed messages published on the topic   *)
(* while subscribed (in publish order for one worker).                         *)
EXTENDS Integers, Sequences, FiniteSets, TLC, SequencesExt, Json
CONSTANTS MaxLen, WithUnsub
Kinds == {"ok", "short", "badhdr", "wrongop", "foreign"}
Seqs == UNION {[1..n -> Kinds] : n \in 1..MaxLen}
\* unsub = 0: never; u in 1..Len(s): Unsubscribe returns before message u is published
UPos(s) == IF WithUnsub THEN 0..Len(s) ELSE {0}
Expected(s, u) == SelectSeq([i \in 1..Len(s) |-> IF s[i] = "ok" /\ (u = 0 \/ i < u) THEN i ELSE 0], LAMBDA x : x > 0)
CasesOf(s) == {[kinds |-> s, unsub |-> u, expect |-> Expected(s, u)] : u \in UPos(s)}
Cases == UNION {CasesOf(s) : s \in Seqs}
ASSUME JsonSerialize("pubsub_cases.json", SetToSeq(Cases))
ASSUME PrintT("CASES " \o ToString(Cardinality(Cases)))
VARIABLE x
Spec == x = 0 /\ [][FALSE]_x
=============================================================================
