------------------------------ MODULE ContextGen ------------------------------
(* Behaviour generator for Context: random walks (-simulate) with the full     *)
(* state of every live context after each step, replayed on real FContexts.    *)
EXTENDS Context, Json
CONSTANT Depth
VARIABLE hist
MapRec(m) == [n \in DOMAIN m |-> m[n]]
State == [c \in live' |-> [req |-> req'[c], resp |-> resp'[c], eph |-> eph'[c], op |-> opid'[c], cid |-> cid'[c],
                           timeout |-> timeout'[c], respop |-> respOp'[c]]]
\* ToJson needs string keys: contexts are named "c1", "c2", ...
Named == [k \in {"c" \o ToString(c) : c \in live'} |-> State[CHOOSE c \in live' : "c" \o ToString(c) = k]]
H(a, c, s, n, v) == hist' = Append(hist, [a |-> a, c |-> c, s |-> s, n |-> n, v |-> v, post |-> Named])
GInit == Init /\ hist = <<>>
GNext == \E c, s \in Ctxs :
           \/ \E id \in {1, 2} : New(c, id) /\ H("New", c, 0, "", ToString(id))
           \/ Clone(s, c) /\ H("Clone", c, s, "", "")
           \/ ServerRead(c, s) /\ H("ServerRead", c, s, "", "")
           \/ ClientMerge(c, s) /\ H("ClientMerge", c, s, "", "")
           \/ \E n \in Names, v \in Vals : \/ AddReq(c, n, v) /\ H("AddReq", c, 0, n, v)
                                           \/ AddResp(c, n, v) /\ H("AddResp", c, 0, n, v)
                                           \/ AddEph(c, n, v) /\ H("AddEph", c, 0, n, v)
           \/ \E t \in {100, 250} : SetTimeout(c, t) /\ H("SetTimeout", c, 0, "", ToString(t))
GSpec == GInit /\ [][GNext]_<<vars, hist>>
Emit == (steps = MaxSteps \/ TLCGet("level") >= Depth) => PrintT("B " \o ToJson(hist))
=============================================================================
