SPECIFICATION ASpec
CONSTANTS MaxGen = 4 MaxAttempts = 2 InitialWait = 1 MaxWait = 3 WithMonitor = TRUE
INVARIANTS ClosedAfterFault CausePublishedOnce AttemptsBounded WaitsBounded AliveMeansOpen
PROPERTIES StepAction
CHECK_DEADLOCK FALSE
