SPECIFICATION Spec
CONSTANTS N = 4 Workers = {1,2} QLen = 1 OnShort = "skip" AllowUnsub = TRUE
INVARIANTS AtMostOnce OnlyOk InOrder NoLate AckIffDelivered

CHECK_DEADLOCK FALSE
