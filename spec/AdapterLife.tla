----------------------------- MODULE AdapterLife -----------------------------
(***************************************************************************)
(* fAdapterTransport lifecycle (adapter_transport.go: Open / close /        *)
(* readLoop) with the transport monitor runner (transport_monitor.go).     *)
(* Processes: the user thread (0), one read loop per generation (1..MaxGen)*)
(* and the monitor runner.  f.mu is an explicit lock so that a goroutine   *)
(* blocked while holding it is a state TLC can see.                        *)
(* The variable abs carries the user-level state machine LifeAbs; in       *)
(* Sequential mode (every user / environment step taken to quiescence)     *)
(* TLC checks that the implementation-shaped state projects onto it.       *)
(***************************************************************************)
EXTENDS Integers, Sequences, FiniteSets, TLC
CONSTANTS MaxGen, MaxAttempts, InitialWait, MaxWait, WithMonitor,
          CloseSignal,     \* "shared" (one token channel for all generations) | "pergen" | "pergen+id" (the code)
          Sequential,      \* TRUE: user / environment steps only at quiescence (refinement check)
          AllowCloseFail,  \* underlying Close() may fail (outside C15's fault list; explored separately)
          StartAtomic      \* TRUE: a read loop is blocked in its read as soon as Open returns (histories at quiescence);
                           \* FALSE: the goroutine started by Open enters its first read in a later step
L == INSTANCE LifeAbs WITH a <- 0
Gens == 1..MaxGen
USER == 0  FREE == -1
Closers == {USER} \cup Gens
VARIABLES isOpen, gen, mu, tokS, tokG, under, fault, rl, pend, pc, closeCh, userRes, spurious,
          monSig,      \* monitor's cap-1 channel of causes
          mon,         \* monitor runner: "wait" | "sleep" | "open" | "done"
          attempts,    \* failed reopen attempts in the current attemptReopen loop
          wait,        \* current wait of the reopen loop (ms)
          mlog,        \* FTransportMonitor callbacks made so far
          told, closes,
          failsLeft,   \* environment: how many of the next underlying Open() calls fail
          closeFails,  \* environment: the user's pending underlying Close() fails
          abs          \* LifeAbs state (history variable)
vars == <<isOpen, gen, mu, tokS, tokG, under, fault, rl, pend, pc, closeCh, userRes, spurious, monSig, mon, attempts, wait, mlog, told, closes, failsLeft, closeFails, abs>>
lifevars == <<isOpen, gen, mu, tokS, tokG, under, fault, rl, pend, pc, closeCh, userRes, spurious>>
monvars == <<monSig, mon, attempts, wait, mlog, told, failsLeft>>

Init == /\ isOpen = FALSE /\ gen = 0 /\ mu = FREE /\ tokS = 0 /\ tokG = [g \in Gens |-> 0]
        /\ under = "closed" /\ fault = [g \in Gens |-> "none"] /\ rl = [g \in Gens |-> "none"]
        /\ pend = [g \in Gens |-> FALSE]     \* the read this loop is blocked in was failed by a Close of the underlying transport
        /\ pc = [p \in Closers |-> "out"] /\ closeCh = [g \in Gens |-> <<>>]
        /\ userRes = "none" /\ spurious = FALSE
        /\ monSig = <<>> /\ mon = (IF WithMonitor THEN "wait" ELSE "done") /\ attempts = 0 /\ wait = 0 /\ mlog = <<>>
        /\ told = 0 /\ closes = 0 /\ failsLeft = 0 /\ closeFails = FALSE /\ abs = L!AbsInit
CauseOf(p) == IF p = USER THEN "nil" ELSE L!Cause(fault[p])

LoopBusy(g) == \/ rl[g] \in {"started", "goterr", "willclose"} \/ pc[g] # "out"
               \/ (rl[g] = "reading" /\ (fault[g] # "none" \/ under = "closed" \/ pend[g]))
Quiet == pc[USER] = "out" /\ (\A g \in Gens : ~LoopBusy(g)) /\ mon \in {"wait", "done"} /\ (mon = "wait" => monSig = <<>>)
MayStep == ~Sequential \/ Quiet

\* Open(): one critical section under f.mu (a fresh per-generation signal channel starts empty)
DoOpen == /\ mu = FREE /\ ~isOpen /\ gen < MaxGen
          /\ gen' = gen + 1 /\ isOpen' = TRUE /\ under' = "open"
          /\ rl' = [rl EXCEPT ![gen + 1] = IF StartAtomic THEN "reading" ELSE "started"]
\* With a live monitor, reopening after a failure is the monitor's job: a user Open racing the runner's own
\* Open is outside the histories C15 quantifies over (DESIGN 5a).
UserMayOpen == gen = 0 \/ mon = "done" \/ (Quiet /\ isOpen)
UOpen == /\ MayStep /\ pc[USER] = "out" /\ mu = FREE /\ UserMayOpen
         /\ IF isOpen THEN userRes' = "ALREADY_OPEN" /\ UNCHANGED <<isOpen, gen, under, rl>>
                      ELSE DoOpen /\ userRes' = "ok"
         /\ abs' = L!AbsOpen(abs)
         /\ UNCHANGED <<mu, tokS, tokG, fault, pend, pc, closeCh, spurious, closes>> /\ UNCHANGED monvars /\ UNCHANGED closeFails
\* the underlying Open() fails: nothing changes
UOpenFail == /\ MayStep /\ pc[USER] = "out" /\ mu = FREE /\ UserMayOpen
             /\ userRes' = (IF isOpen THEN "ALREADY_OPEN" ELSE "openerr") /\ abs' = L!AbsOpenFail(abs)
             /\ UNCHANGED <<isOpen, gen, mu, tokS, tokG, under, fault, rl, pend, pc, closeCh, spurious, closes>> /\ UNCHANGED monvars /\ UNCHANGED closeFails

\* close(cause): enter under f.mu, push the close token (may block!), close the underlying transport (CloseUnder), publish (CloseDone)
CloseEnter(p) ==
  /\ pc[p] = "out" /\ mu = FREE
  /\ IF ~isOpen \/ (CloseSignal = "pergen+id" /\ p # USER /\ p # gen)
       THEN /\ UNCHANGED <<mu, pc>>
            /\ IF p = USER THEN userRes' = "NOT_OPEN" /\ UNCHANGED rl
                           ELSE rl' = [rl EXCEPT ![p] = "exited"] /\ UNCHANGED userRes
       ELSE mu' = p /\ pc' = [pc EXCEPT ![p] = "push"] /\ UNCHANGED <<userRes, rl>>
  /\ UNCHANGED <<isOpen, gen, tokS, tokG, under, fault, pend, closeCh, spurious, closes>> /\ UNCHANGED monvars
ClosePush(p) ==
  /\ pc[p] = "push" /\ mu = p
  /\ IF CloseSignal = "shared" THEN tokS < 1 /\ tokS' = tokS + 1 /\ UNCHANGED tokG
                               ELSE tokG[gen] < 1 /\ tokG' = [tokG EXCEPT ![gen] = 1] /\ UNCHANGED tokS
  /\ pc' = [pc EXCEPT ![p] = "under"]
  /\ UNCHANGED <<isOpen, gen, mu, under, fault, rl, pend, closeCh, userRes, spurious, closes, abs>> /\ UNCHANGED monvars /\ UNCHANGED closeFails
\* underlying Close() succeeds: from here on every read on the underlying transport fails - the read loops can see that
\* before the closer has published anything (it still holds f.mu)
CloseUnder(p) ==
  /\ pc[p] = "under" /\ mu = p /\ (p = USER => ~closeFails)
  /\ under' = "closed"
  /\ pend' = [g \in Gens |-> pend[g] \/ rl[g] = "reading"]       \* every read blocked right now fails
  /\ pc' = [pc EXCEPT ![p] = "publish"]
  /\ UNCHANGED <<isOpen, gen, mu, tokS, tokG, fault, rl, closeCh, userRes, spurious, closes, abs>> /\ UNCHANGED monvars /\ UNCHANGED closeFails
\* publish the cause once, tell the monitor (non-blocking), clear isOpen, release f.mu
CloseDone(p) ==
  /\ pc[p] = "publish" /\ mu = p
  /\ isOpen' = FALSE /\ mu' = FREE
  /\ closeCh' = [closeCh EXCEPT ![gen] = Append(@, CauseOf(p))]
  /\ monSig' = IF Len(monSig) < 1 /\ mon # "done" THEN Append(monSig, CauseOf(p)) ELSE monSig
  /\ closes' = closes + 1
  /\ spurious' = (spurious \/ (p # USER /\ p # gen))
  /\ pc' = [pc EXCEPT ![p] = "out"]
  /\ IF p = USER THEN userRes' = "closed" /\ UNCHANGED rl ELSE rl' = [rl EXCEPT ![p] = "exited"] /\ UNCHANGED userRes
  /\ UNCHANGED <<gen, tokS, tokG, under, pend, fault, mon, attempts, wait, mlog, told, failsLeft, closeFails, abs>>
\* underlying Close() fails: drain the token, return the error, stay open
CloseFail(p) ==
  /\ AllowCloseFail /\ pc[p] = "under" /\ mu = p /\ p = USER /\ closeFails
  /\ IF CloseSignal = "shared" THEN tokS' = 0 /\ UNCHANGED tokG ELSE tokG' = [tokG EXCEPT ![gen] = 0] /\ UNCHANGED tokS
  /\ mu' = FREE /\ pc' = [pc EXCEPT ![p] = "out"] /\ userRes' = "closeerr"
  /\ UNCHANGED <<isOpen, gen, under, fault, rl, pend, closeCh, spurious, closes, abs>> /\ UNCHANGED monvars /\ UNCHANGED closeFails
UClose == MayStep /\ CloseEnter(USER) /\ abs' = L!AbsClose(abs) /\ closeFails' = FALSE
\* the same call, but the underlying Close() is going to fail
UCloseFail == AllowCloseFail /\ MayStep /\ CloseEnter(USER) /\ abs' = L!AbsCloseFail(abs) /\ closeFails' = TRUE

\* environment: the stream ends ("eof"), breaks ("err"), or carries an undecodable frame ("badframe");
\* k of the following underlying Open() calls will fail
Fault(g, kind, k) ==
  /\ MayStep /\ rl[g] = "reading" /\ fault[g] = "none" /\ g = gen /\ under = "open" /\ isOpen
  /\ (k = 0 \/ (mon = "wait" /\ L!Cause(kind) = "err"))
  /\ (gen < MaxGen \/ k >= MaxAttempts \/ mon # "wait" \/ L!Cause(kind) = "nil")
  /\ fault' = [fault EXCEPT ![g] = kind] /\ failsLeft' = k
  /\ abs' = L!AbsFault(abs, kind, k)
  /\ UNCHANGED <<isOpen, gen, mu, tokS, tokG, under, rl, pend, pc, closeCh, userRes, spurious, closes, monSig, mon, attempts, wait, mlog, told, closeFails>>
\* read loop: the blocking read returns an error (stream fault, or the underlying transport was closed)
RLErr(g) == /\ rl[g] = "reading" /\ (fault[g] \in {"eof", "err"} \/ under = "closed" \/ pend[g])
            /\ rl' = [rl EXCEPT ![g] = "goterr"] /\ pend' = [pend EXCEPT ![g] = FALSE]
            /\ UNCHANGED <<isOpen, gen, mu, tokS, tokG, under, fault, pc, closeCh, userRes, spurious, closes, abs>> /\ UNCHANGED monvars /\ UNCHANGED closeFails
\* the goroutine started by Open reaches its first blocking read
RLStart(g) == /\ rl[g] = "started" /\ rl' = [rl EXCEPT ![g] = "reading"]
              /\ UNCHANGED <<isOpen, gen, mu, tokS, tokG, under, fault, pend, pc, closeCh, userRes, spurious, closes, abs>> /\ UNCHANGED monvars /\ UNCHANGED closeFails
\* read loop: registry.Execute failed on a frame: straight to close(err), no look at the close signal
RLBad(g) == /\ rl[g] = "reading" /\ fault[g] = "badframe" /\ under = "open" /\ g = gen
            /\ rl' = [rl EXCEPT ![g] = "willclose"]
            /\ UNCHANGED <<isOpen, gen, mu, tokS, tokG, under, fault, pend, pc, closeCh, userRes, spurious, closes, abs>> /\ UNCHANGED monvars /\ UNCHANGED closeFails
\* select { case <-closeSignal: return ; default: }
RLCheck(g) ==
  /\ rl[g] = "goterr"
  /\ IF CloseSignal = "shared"
       THEN /\ UNCHANGED tokG
            /\ IF tokS > 0 THEN tokS' = 0 /\ rl' = [rl EXCEPT ![g] = "exited"]
                           ELSE tokS' = tokS /\ rl' = [rl EXCEPT ![g] = "willclose"]
       ELSE /\ UNCHANGED tokS
            /\ IF tokG[g] > 0 THEN tokG' = [tokG EXCEPT ![g] = 0] /\ rl' = [rl EXCEPT ![g] = "exited"]
                              ELSE tokG' = tokG /\ rl' = [rl EXCEPT ![g] = "willclose"]
  /\ UNCHANGED <<isOpen, gen, mu, under, fault, pend, pc, closeCh, userRes, spurious, closes, abs>> /\ UNCHANGED monvars /\ UNCHANGED closeFails
RLClose(g) == rl[g] = "willclose" /\ CloseEnter(g) /\ UNCHANGED <<abs, closeFails>>

\* ---- monitor runner ----
MonTake == /\ mon = "wait" /\ monSig # <<>>
           /\ monSig' = Tail(monSig) /\ told' = told + 1
           /\ IF Head(monSig) = "nil"
                THEN mon' = "done" /\ mlog' = Append(mlog, L!CB("cleanly", 0, 0)) /\ wait' = wait
                ELSE /\ mlog' = Append(mlog, L!CB("uncleanly", 0, 0))
                     /\ mon' = (IF MaxAttempts > 0 THEN "sleep" ELSE "done") /\ wait' = InitialWait
           /\ attempts' = 0
           /\ UNCHANGED lifevars /\ UNCHANGED <<closes, failsLeft, closeFails, abs>>
MonSleepDone == /\ mon = "sleep" /\ mon' = "open" /\ UNCHANGED lifevars /\ UNCHANGED <<monSig, attempts, wait, mlog, told, closes, failsLeft, closeFails, abs>>
MonOpen == /\ mon = "open" /\ mu = FREE
           /\ IF failsLeft > 0
                THEN /\ attempts' = attempts + 1 /\ failsLeft' = failsLeft - 1
                     /\ mlog' = Append(mlog, L!CB("reopenfailed", attempts + 1, wait))
                     /\ mon' = (IF attempts + 1 >= MaxAttempts THEN "done" ELSE "sleep")
                     /\ wait' = L!Min(2 * wait, MaxWait)
                     /\ UNCHANGED lifevars
                ELSE /\ DoOpen
                     /\ mlog' = Append(mlog, L!CB("reopened", attempts, wait))
                     /\ mon' = "wait" /\ attempts' = 0 /\ UNCHANGED <<failsLeft, wait>>
                     /\ UNCHANGED <<mu, tokS, tokG, fault, pend, pc, closeCh, userRes, spurious>>
           /\ UNCHANGED <<monSig, told, closes, closeFails, abs>>
Sys == \/ \E p \in Closers : ClosePush(p) \/ CloseUnder(p) \/ CloseDone(p) \/ CloseFail(p)
       \/ \E g \in Gens : RLStart(g) \/ RLErr(g) \/ RLBad(g) \/ RLCheck(g) \/ RLClose(g)
       \/ MonTake \/ MonSleepDone \/ MonOpen
Env == \/ UOpen \/ UOpenFail \/ UClose \/ UCloseFail
       \/ \E g \in Gens, kind \in L!Kinds, k \in 0..MaxAttempts : Fault(g, kind, k)
Next == Env \/ Sys
Spec == Init /\ [][Next]_vars /\ WF_vars(Sys)
\* ---------------- properties (C15) ----------------
FailureDetected == (Quiet /\ gen > 0 /\ fault[gen] # "none") => ~isOpen
OpenHasReader == (Quiet /\ isOpen) => rl[gen] = "reading"
\* only the current generation's loop may read the underlying transport: a loop of an earlier generation
\* that is (still) reading the reopened transport steals the new generation's bytes
NoStaleReader == \A g \in Gens : (rl[g] = "reading" /\ under = "open" /\ ~pend[g] /\ fault[g] = "none") => g = gen
OneCause == \A g \in Gens : Len(closeCh[g]) <= 1
ClosedHasCause == \A g \in Gens : (g < gen \/ (g = gen /\ ~isOpen /\ Quiet)) => Len(closeCh[g]) = 1
CauseNilIffClean == \A g \in Gens : closeCh[g] # <<>> => (closeCh[g][1] = "err" => fault[g] \in {"err", "badframe"})
NoSpuriousClose == ~spurious
AttemptsBounded == attempts <= MaxAttempts
WaitBounded == wait <= (IF InitialWait > MaxWait THEN InitialWait ELSE MaxWait)
MonitorToldEveryClose == (Quiet /\ mon = "wait") => told = closes
CloseReturns == \A p \in Closers : (pc[p] = "push") ~> (pc[p] = "out")
\* refinement at quiescence: the implementation-shaped state projects onto LifeAbs
Proj == [open |-> isOpen, gen |-> gen,
         cause |-> [g \in Gens |-> IF closeCh[g] = <<>> THEN "none" ELSE closeCh[g][1]],
         alive |-> (mon # "done"), log |-> mlog]
QuietMatch == (Sequential /\ Quiet) =>
                 /\ Proj.open = abs.open /\ Proj.gen = abs.gen /\ Proj.cause = abs.cause
                 /\ Proj.alive = abs.alive /\ Proj.log = abs.log
                 /\ (abs.res \in {"ok", "ALREADY_OPEN", "NOT_OPEN", "closed", "openerr", "closeerr"} => userRes = abs.res)
=============================================================================
