-------------------------------- MODULE Server --------------------------------
(***************************************************************************)
(* Server side of an RPC: FBaseProcessor.Process, the generated processor  *)
(* functions, SendReply / SendError, and the three server loops            *)
(* (simple_server.go per connection, HTTP handler per request, NATS server *)
(* per message with W workers).  A connection is a sequence of requests    *)
(* processed in order; HTTP requests and NATS messages are connections     *)
(* carrying one request each.                                              *)
(***************************************************************************)
EXTENDS Integers, Sequences, FiniteSets, TLC
CONSTANTS Conns,       \* connections (simple server) or independent carriers (HTTP requests / NATS messages)
          MaxReq,      \* requests per connection
          ServerKind   \* "simple" | "message" (HTTP, NATS)
\* "overlimit": a successful call whose caller accepts only a reply smaller than the one it gets (HTTP: x-frugal-payload-limit)
Kinds == {"ok", "overlimit", "badargs", "unknown", "declared", "undeclared", "appex", "oneway", "onewayfail"}
TwoWay(k) == k \notin {"oneway", "onewayfail"}
\* what the processor writes for a request of kind k: <<message type, content>>
ReplyOf(k) == CASE k = "ok"         -> <<"REPLY", "result">>
                [] k = "overlimit"  -> <<"LIMIT", "refused-or-result">>      \* HTTP: status 413 and no frame; servers without a caller-side limit: the result
                [] k = "declared"   -> <<"REPLY", "declared-exception">>
                [] k = "badargs"    -> <<"EXCEPTION", "PROTOCOL_ERROR">>
                [] k = "unknown"    -> <<"EXCEPTION", "UNKNOWN_METHOD">>
                [] k = "undeclared" -> <<"EXCEPTION", "INTERNAL_ERROR">>
                [] k = "appex"      -> <<"EXCEPTION", "handler-type">>
                [] k = "onewayfail" -> <<"EXCEPTION", "INTERNAL_ERROR">>   \* the generated oneway function reports its handler's failure
                [] OTHER            -> <<>>                                \* a successful oneway call produces no reply
Invokes(k) == k \in {"ok", "overlimit", "declared", "undeclared", "appex", "oneway", "onewayfail"}
VARIABLES inq,      \* inq[c]: requests not yet read, each [id, kind]
          out,      \* out[c]: replies written, each [id, type, what]
          alive,    \* connection still served
          calls,    \* handler invocations: sequence of request ids
          nextId
vars == <<inq, out, alive, calls, nextId>>
Init == /\ inq = [c \in Conns |-> <<>>] /\ out = [c \in Conns |-> <<>>] /\ alive = [c \in Conns |-> TRUE]
        /\ calls = <<>> /\ nextId = 1
Send(c, k) == /\ Len(inq[c]) + Len(out[c]) < MaxReq /\ nextId <= MaxReq * Cardinality(Conns)
              /\ inq' = [inq EXCEPT ![c] = Append(@, [id |-> nextId, kind |-> k])] /\ nextId' = nextId + 1
              /\ UNCHANGED <<out, alive, calls>>
Process(c) == /\ alive[c] /\ inq[c] # <<>>
              /\ LET r == Head(inq[c])  k == r.kind IN
                 /\ inq' = [inq EXCEPT ![c] = Tail(@)]
                 /\ calls' = IF Invokes(k) THEN Append(calls, r.id) ELSE calls
                 /\ out' = IF ReplyOf(k) = <<>> THEN out
                           ELSE [out EXCEPT ![c] = Append(@, [id |-> r.id, type |-> ReplyOf(k)[1], what |-> ReplyOf(k)[2]])]
              \* a request whose arguments cannot be decoded may leave unread bytes of its frame on a stream connection:
              \* the simple server is allowed to lose that one connection after answering PROTOCOL_ERROR
              /\ \/ alive' = alive
                 \/ ServerKind = "simple" /\ Head(inq[c]).kind = "badargs" /\ alive' = [alive EXCEPT ![c] = FALSE]
              /\ UNCHANGED nextId
Next == \E c \in Conns : Process(c) \/ \E k \in Kinds : Send(c, k)
Spec == Init /\ [][Next]_vars /\ WF_vars(\E c \in Conns : Process(c))
\* ---------------- C14 ----------------
\* replies on a connection are in request order, at most one per request, each carrying its request's id
OneReplyEach == \A c \in Conns : \A i, j \in 1..Len(out[c]) : i < j => out[c][i].id < out[c][j].id
HandlerAtMostOnce == \A i, j \in 1..Len(calls) : i # j => calls[i] # calls[j]
\* no request of any kind ends the connection: every request is eventually consumed and every two-way one answered
Survives == \A c \in Conns : ~alive[c] => (ServerKind = "simple" /\ out[c] # <<>> /\ out[c][Len(out[c])].what = "PROTOCOL_ERROR")
AllAnswered == \A c \in Conns : <>[](inq[c] = <<>> \/ ~alive[c])
\* the reply list of a connection is a function of its request list alone (other connections never matter)
RECURSIVE RepliesFor(_)
RepliesFor(reqs) == IF reqs = <<>> THEN <<>>
                    ELSE LET r == Head(reqs) IN
                         (IF ReplyOf(r.kind) = <<>> THEN <<>> ELSE <<[id |-> r.id, type |-> ReplyOf(r.kind)[1], what |-> ReplyOf(r.kind)[2]]>>)
                         \o RepliesFor(Tail(reqs))
=============================================================================
