---------------------------- MODULE EncodingCases ----------------------------
(***************************************************************************)
(* C02: the cases for one program.  EncProg (written by the check from a   *)
(* program IDL.tla emitted) defines Prog.  For every struct, union,        *)
(* exception and every args / result struct: every assignment of {not set, *)
(* sample 1, sample 2, the default, the zero value} to its fields (unions: *)
(* every single member, plus the illegal shapes none / two), the wire tree *)
(* Encode demands, and for each such tree the perturbed encodings a reader *)
(* must cope with (fields reversed, an unknown field in front or behind, a *)
(* field missing) with what Decode says the reader must produce.  (A field *)
(* with a declared id but another wire type is not a conforming encoding   *)
(* and the property says nothing about it: not generated.)                 *)
(***************************************************************************)
EXTENDS Encoding, EncProg, Json
Fuel == 2
Bottom == [k |-> "bottom"]
Str(s) == [k |-> "str", s |-> s]
RECURSIVE Val(_, _, _), StructVal(_, _, _)
Dedup(a, b) == IF a = b THEN <<a>> ELSE <<a, b>>
Val(t, k, fuel) == LET u == Resolve(Prog, t) kd == Kind(Prog, t) IN
  CASE kd = "bool" -> [k |-> "bool", b |-> (k = 1)]
    [] kd = "byte" -> IntV(IF k = 1 THEN 7 ELSE -128)
    [] kd = "i16" -> IntV(IF k = 1 THEN 300 ELSE -32768)
    [] kd = "i32" -> IntV(IF k = 1 THEN 123456 ELSE -2147483647)
    [] kd = "i64" -> IF k = 1 THEN [k |-> "big", s |-> "-9223372036854775808"] ELSE IntV(77)
    [] kd = "double" -> [k |-> "double", s |-> IF k = 1 THEN "0.25" ELSE "-8e300"]
    [] kd \in {"string", "binary"} -> Str(IF k = 1 THEN "@u" ELSE "plain text")
    [] kd = "enum" -> LET e == EnumNamed(Prog, u.n) IN
                      IF e.numbered = <<>> THEN IntV(0) ELSE IntV(e.numbered[IF k = 1 THEN 1 ELSE Len(e.numbered)].value)
    [] kd \in {"list", "set"} ->
         IF k = 2 THEN [k |-> "list", items |-> <<>>]
         ELSE LET a == Val(u.v, 1, fuel) b == Val(u.v, 2, fuel) IN
              IF a = Bottom \/ b = Bottom THEN Bottom
              ELSE [k |-> "list", items |-> IF kd = "set" THEN Dedup(a, b) ELSE <<a, b>>]
    [] kd = "map" ->
         IF k = 2 THEN [k |-> "map", pairs |-> <<>>]
         ELSE LET k1 == Val(u.key, 1, fuel) k2 == Val(u.key, 2, fuel) v1 == Val(u.v, 1, fuel) v2 == Val(u.v, 2, fuel) IN
              IF Bottom \in {k1, k2, v1, v2} THEN Bottom
              ELSE [k |-> "map", pairs |-> IF k1 = k2 /\ Kind(Prog, u.key) # "struct" THEN <<<<k1, v1>>>> ELSE <<<<k1, v1>>, <<k2, v2>>>>]
    [] OTHER -> StructVal(u.n, k, fuel)
StructVal(n, k, fuel) ==
  IF fuel = 0 THEN Bottom
  ELSE LET s == StructNamed(Prog, n)
           \* (nested union values stay clear of the member's default: that corner is explored, and flagged, at the top level only)
           raw(i) == LET a == Val(s.fields[i].t, 1 + ((k + i) % 2), fuel - 1) b == Val(s.fields[i].t, 1 + ((k + i + 1) % 2), fuel - 1) IN
                     IF s.kind = "union" /\ a = DfltOf(Prog, s.fields[i]) THEN b ELSE a
           isset(i) == IF s.kind = "union" THEN i = 1 + ((k - 1) % Len(s.fields))
                       ELSE s.fields[i].req # "optional" \/ (k + i) % 2 = 0
           v(i) == IF ~isset(i) THEN Unset ELSE raw(i)
           dead == (s.kind = "union" /\ s.fields = <<>>) \/
                   \E i \in Idx(s.fields) : isset(i) /\ raw(i) = Bottom /\ (s.kind = "union" \/ s.fields[i].req # "optional") IN
       IF dead THEN Bottom
       ELSE [k |-> "struct", name |-> n, fields |-> [i \in Idx(s.fields) |-> [id |-> s.fields[i].id, v |-> IF v(i) = Bottom THEN Unset ELSE v(i)]]]

\* ---- top-level assignments ----
\* (the declared default itself is a third sample: "set to what the default is anyway")
FieldChoices(f) == ((IF Kind(Prog, f.t) = "struct" /\ f.req # "optional" THEN {} ELSE {Unset})
               \cup {Val(f.t, 1, Fuel), Val(f.t, 2, Fuel)} \cup (IF f.dflt # NoDflt THEN {DfltOf(Prog, f)} ELSE {})
               \* and so is the zero value of a scalar: "set to 0 / false / the empty string" is not "not set"
               \cup (IF Kind(Prog, f.t) \in {"bool", "byte", "i16", "i32", "i64", "double", "string", "enum"} THEN {Zero(Prog, f.t)} ELSE {})) \ {Bottom}
RECURSIVE Prod(_)
Prod(fs) == IF fs = <<>> THEN {<<>>}
            ELSE {<<[id |-> Head(fs).id, v |-> c]>> \o r : c \in FieldChoices(Head(fs)), r \in Prod(Tail(fs))}
Top == [i \in Idx(Prog.structs) |-> AsParsed(Prog.structs[i])] \o Synth(Prog)
Values(s) == IF s.kind = "union"
             THEN UNION {{[i \in Idx(s.fields) |-> [id |-> s.fields[i].id, v |-> IF i = j THEN c ELSE Unset]] :
                            c \in FieldChoices(s.fields[j]) \ {Unset}} : j \in Idx(s.fields)}
             ELSE Prod(s.fields)
AsValue(s, fs) == [k |-> "struct", name |-> s.name, fields |-> fs]
\* illegal union shapes: nothing set, two members set
BadUnion(s) == {AsValue(s, [i \in Idx(s.fields) |-> [id |-> s.fields[i].id, v |-> Unset]])} \cup
               (IF Len(s.fields) < 2 THEN {} ELSE
                  LET pick(f) == IF Val(f.t, 1, Fuel) = DfltOf(Prog, f) THEN Val(f.t, 2, Fuel) ELSE Val(f.t, 1, Fuel)
                      a == pick(s.fields[1]) b == pick(s.fields[2]) IN
                  IF a = Bottom \/ b = Bottom THEN {} ELSE
                  {AsValue(s, [i \in Idx(s.fields) |-> [id |-> s.fields[i].id, v |-> IF i = 1 THEN a ELSE IF i = 2 THEN b ELSE Unset]])})
\* ---- perturbed encodings ----
Unknown == [id |-> 77, f |-> [wt |-> T_STRUCT, fields |-> <<[id |-> 1, f |-> [wt |-> T_LIST, et |-> T_I32, items |-> <<[wt |-> T_I32, v |-> IntV(1)]>>]],
                                                          [id |-> 2, f |-> [wt |-> T_STRING, v |-> Str("skipped")]]>>]]
Perturbed(s, w) ==
  {[how |-> "as-written", w |-> w], [how |-> "reversed", w |-> [w EXCEPT !.fields = Reverse(@)]],
   [how |-> "unknown-field-first", w |-> [w EXCEPT !.fields = <<Unknown>> \o @]],
   [how |-> "unknown-field-last", w |-> [w EXCEPT !.fields = @ \o <<Unknown>>]]}
  \cup {[how |-> "field-dropped", w |-> [w EXCEPT !.fields = SelectSeq(@, LAMBDA x : x.id # w.fields[i].id)]] : i \in Idx(w.fields)}
\* ---- the cases ----
\* a union member whose value equals the member's declared default: Go keeps such a member as a plain value and takes
\* "equal to the default" for "not set", so it cannot tell this legal value from an empty union (flagged for the harness)
EqDefault(s, fs) == s.kind = "union" /\ \E i \in Idx(fs) : fs[i].v # Unset /\ s.fields[i].dflt # NoDflt /\ fs[i].v = DfltOf(Prog, s.fields[i])
                                         /\ Kind(Prog, s.fields[i].t) \notin {"list", "set", "map", "binary", "struct"}
WriteCases == UNION {{[op |-> "write", s |-> Top[i].name, kind |-> Top[i].kind, v |-> AsValue(Top[i], fs), wire |-> EncStruct(Prog, Top[i].name, AsValue(Top[i], fs)),
                       eqd |-> EqDefault(Top[i], fs)] :
                        fs \in Values(Top[i])} : i \in Idx(Top)}
BadWrites == UNION {{[op |-> "write-must-fail", s |-> Top[i].name, kind |-> "union", v |-> b] : b \in BadUnion(Top[i])} :
                        i \in {j \in Idx(Top) : Top[j].kind = "union"}}
ReadCases == UNION {{[op |-> "read", s |-> c.s, kind |-> c.kind, how |-> pw.how, wire |-> pw.w, expect |-> DecStruct(Prog, c.s, pw.w), eqd |-> c.eqd] :
                       pw \in Perturbed(c.s, c.wire)} : c \in WriteCases}
\* a union written by Encode has exactly one field
UnionOne == \A c \in WriteCases : c.kind = "union" => Len(c.wire.fields) = 1
\* Decode inverts Encode
RoundTrip == \A c \in WriteCases : DecStruct(Prog, c.s, c.wire) # Reject /\ EncStruct(Prog, c.s, DecStruct(Prog, c.s, c.wire)) = c.wire
ASSUME UnionOne
ASSUME RoundTrip
ASSUME \A c \in WriteCases \cup BadWrites \cup ReadCases : PrintT("CASE " \o ToJson(c))
VARIABLE dummy
Init == dummy = 0
Next == UNCHANGED dummy
Spec == Init /\ [][Next]_dummy
=============================================================================
