------------------------------- MODULE RpcCases -------------------------------
(* C03 case enumeration: every call sequence of length <= MaxLen over the       *)
(* (method, outcome) pairs the IDL allows, with what Rpc says the caller        *)
(* observes, how often the handler runs and how many reply frames are produced; *)
(* single calls are enumerated for every argument class.                        *)
EXTENDS Integers, Sequences, FiniteSets, TLC, SequencesExt, Json
CONSTANT MaxLen
R == INSTANCE Rpc WITH MaxCalls <- MaxLen, calls <- 0, handler <- 0, seen <- 0
ArgClasses == {"zero", "typical", "edge"}
Pairs == {<<m, o>> \in R!Methods \X R!Outcomes : R!Possible(m, o)}
OneF(p, a, f) == [m |-> p[1], o |-> p[2], args |-> a, observes |-> R!ObservesF(p[1], p[2], f), kind |-> R!Kind(p[1], p[2]),
              frames |-> R!ReplyFrames(p[1], p[2]), inherited |-> R!Inherited(p[1]), fault |-> f]
One(p, a) == OneF(p, a, "none")
\* every (method, outcome) once more with the connection dropped between the handler and the response
Singles == {<<One(p, a)>> : p \in Pairs, a \in ArgClasses} \cup {<<OneF(p, "typical", "drop-after-handler")>> : p \in Pairs}
           \* ... and, two-way methods, with a caller that accepts only a few bytes of reply, followed by an ordinary call
           \cup {<<OneF(p, "typical", "reply-over-limit"), One(q, "typical")>> : p \in {x \in Pairs : ~R!Oneway(x[1])}, q \in {<<"add", "return">>, <<"get", "declared">>}}
Seqs == IF MaxLen < 2 THEN {} ELSE {<<One(p, "typical"), One(q, "typical")>> : p \in Pairs, q \in Pairs}
Cases == Singles \cup Seqs
ASSUME JsonSerialize("rpc_cases.json", SetToSeq(Cases))
ASSUME PrintT("CASES " \o ToString(Cardinality(Cases)))
VARIABLE x
Spec == x = 0 /\ [][FALSE]_x
=============================================================================
