------------------------------ MODULE Middleware ------------------------------
(***************************************************************************)
(* middleware.go: composeMiddleware / Method.Invoke / AddMiddleware and    *)
(* the generated wiring append(constructorMiddleware, provider.GetMiddleware()...). *)
(* A middleware kind is "obs" (observe), "arg" (rewrite the argument to    *)
(* arg+1 before calling next), "res" (rewrite the result to res*2 after    *)
(* next returned), "err" (replace the error by its own id), "clr" (clear   *)
(* the error through Results.SetError(nil)), "twice" (a retry / fallback   *)
(* layer: calls next, calls next again with arg+100, returns what the      *)
(* FIRST call returned).                                                   *)
(***************************************************************************)
EXTENDS Integers, Sequences, FiniteSets, TLC, Json, SequencesExt
CONSTANTS MaxLen
Kinds == {"obs", "arg", "res", "err", "clr", "twice"}
Lists(n) == UNION {[1..k -> Kinds] : k \in 0..n}
\* effective chain, innermost first: constructor list, then provider list, then AddMiddleware calls
Chain(ctor, prov, added) == ctor \o prov \o added
\* Invoke: outermost = last element.  Returns [log, res, err, seenByHandler]
RECURSIVE Call(_, _, _)
Call(chain, i, arg) ==       \* call into layer i (i = 0 is the handler)
  IF i = 0 THEN [log |-> <<>>, res |-> arg * 10, err |-> 0, handlerArg |-> <<arg>>]
  ELSE LET k == chain[i]
           a == IF k = "arg" THEN arg + 1 ELSE arg
           inner == Call(chain, i - 1, a)
           second == IF k = "twice" THEN Call(chain, i - 1, a + 100) ELSE [log |-> <<>>, res |-> 0, err |-> 0, handlerArg |-> <<>>]
           r == IF k = "res" THEN inner.res * 2 ELSE inner.res
           e == IF k = "err" THEN i ELSE IF k = "clr" THEN 0 ELSE inner.err
       IN [log |-> <<[ev |-> "enter", layer |-> i, arg |-> arg]>> \o inner.log \o second.log \o <<[ev |-> "exit", layer |-> i, res |-> inner.res, err |-> inner.err]>>,
           res |-> r, err |-> e, handlerArg |-> inner.handlerArg \o second.handlerArg]
Invoke(chain, arg) == Call(chain, Len(chain), arg)
VARIABLES ctor, prov, added, want
vars == <<ctor, prov, added, want>>
\* AddMiddleware is called once - or, on an object without provider middleware (a processor), twice in a row
Init == /\ ctor \in Lists(MaxLen) /\ prov \in Lists(MaxLen) /\ added \in Lists(2) /\ (Len(added) = 2 => prov = <<>>)
        /\ want = Invoke(Chain(ctor, prov, added), 1)
Next == UNCHANGED vars
Spec == Init /\ [][Next]_vars
R == want
\* C16: every layer is entered and exited exactly once, properly nested, outermost = last listed
Layers == 1..Len(Chain(ctor, prov, added))
EnterIdx(i) == {j \in 1..Len(R.log) : R.log[j].ev = "enter" /\ R.log[j].layer = i}
ExitIdx(i) == {j \in 1..Len(R.log) : R.log[j].ev = "exit" /\ R.log[j].layer = i}
\* number of times layer i is reached: doubled by every "twice" layer above it
Reach(i) == LET RECURSIVE Pow(_) Pow(n) == IF n = 0 THEN 1 ELSE 2 * Pow(n - 1)
            IN Pow(Cardinality({j \in Layers : j > i /\ Chain(ctor, prov, added)[j] = "twice"}))
OncePerLayer == \A i \in Layers : Cardinality(EnterIdx(i)) = Reach(i) /\ Cardinality(ExitIdx(i)) = Reach(i)
\* every visit of an inner layer lies inside a visit of each outer layer
Nested == \A i, k \in Layers : i < k =>
            \A ei \in EnterIdx(i) : \E ek \in EnterIdx(k), xk \in ExitIdx(k) : ek < ei /\ ei < xk
\* values observed at both ends follow from the last rewrite on the way in / out
FarSideSeesLastRewrite == R.handlerArg[1] = 1 + Cardinality({i \in Layers : Chain(ctor, prov, added)[i] = "arg"})
\* a retry layer hands back what its FIRST inner call returned, whatever the second produced
FirstResultKept == \A i \in Layers : Chain(ctor, prov, added)[i] = "twice" => Len(R.handlerArg) >= 2
\* ChainIsAValue: the chain of a client / processor / publisher / subscriber is fixed when it is constructed.  The list the
\* caller passed is a value: handing the same list (even one with spare capacity) to a second constructor whose provider
\* carries other middleware, or overwriting its elements afterwards, changes nothing (the drivers run every client case a
\* second time under exactly these circumstances; named deviation: composing lazily from the retained slice)
AfterReuse(chain, otherProv, overwrite) == chain
ChainIsAValue == Invoke(AfterReuse(Chain(ctor, prov, added), <<"obs", "obs">>, <<"obs">>), 1) = want
\* the case list for the drivers
AllCases == {[ctor |-> c, prov |-> p, added |-> a, want |-> Invoke(Chain(c, p, a), 1)] : c \in Lists(MaxLen), p \in Lists(MaxLen), a \in Lists(1)}
            \cup {[ctor |-> c, prov |-> <<>>, added |-> a, want |-> Invoke(Chain(c, <<>>, a), 1)] : c \in Lists(MaxLen), a \in {x \in Lists(2) : Len(x) = 2}}
ASSUME JsonSerialize("middleware_cases.json", SetToSeq(AllCases))
ASSUME PrintT("CASES " \o ToString(Cardinality(AllCases)))
=============================================================================
