------------------------------ MODULE Middleware ------------------------------
(***************************************************************************)
(* middleware.go: composeMiddleware / Method.Invoke / AddMiddleware and    *)
(* the generated wiring append(constructorMiddleware, provider.GetMiddleware()...). *)
(* A middleware kind is "obs" (observe), "arg" (rewrite the argument to    *)
(* arg+1 before calling next), "res" (rewrite the result to res*2 after    *)
(* next returned), "err" (replace the error by its own id).                *)
(***************************************************************************)
EXTENDS Integers, Sequences, FiniteSets, TLC, Json, SequencesExt
CONSTANTS MaxLen
Kinds == {"obs", "arg", "res", "err"}
Lists(n) == UNION {[1..k -> Kinds] : k \in 0..n}
\* effective chain, innermost first: constructor list, then provider list, then AddMiddleware calls
Chain(ctor, prov, added) == ctor \o prov \o added
\* Invoke: outermost = last element.  Returns [log, res, err, seenByHandler]
RECURSIVE Call(_, _, _)
Call(chain, i, arg) ==       \* call into layer i (i = 0 is the handler)
  IF i = 0 THEN [log |-> <<>>, res |-> arg * 10, err |-> 0, handlerArg |-> <<arg>>]
  ELSE LET k == chain[i]
           a == IF k = "arg" THEN arg + 1 ELSE arg
           inner == Call(chain, i - 1, a)
           r == IF k = "res" THEN inner.res * 2 ELSE inner.res
           e == IF k = "err" THEN i ELSE inner.err
       IN [log |-> <<[ev |-> "enter", layer |-> i, arg |-> arg]>> \o inner.log \o <<[ev |-> "exit", layer |-> i, res |-> inner.res, err |-> inner.err]>>,
           res |-> r, err |-> e, handlerArg |-> inner.handlerArg]
Invoke(chain, arg) == Call(chain, Len(chain), arg)
VARIABLES ctor, prov, added, want
vars == <<ctor, prov, added, want>>
Init == ctor \in Lists(MaxLen) /\ prov \in Lists(MaxLen) /\ added \in Lists(1) /\ want = Invoke(Chain(ctor, prov, added), 1)
Next == UNCHANGED vars
Spec == Init /\ [][Next]_vars
R == want
\* C16: every layer is entered and exited exactly once, properly nested, outermost = last listed
Layers == 1..Len(Chain(ctor, prov, added))
EnterIdx(i) == {j \in 1..Len(R.log) : R.log[j].ev = "enter" /\ R.log[j].layer = i}
ExitIdx(i) == {j \in 1..Len(R.log) : R.log[j].ev = "exit" /\ R.log[j].layer = i}
OncePerLayer == \A i \in Layers : Cardinality(EnterIdx(i)) = 1 /\ Cardinality(ExitIdx(i)) = 1
Nested == \A i, k \in Layers : i < k =>
            LET ei == CHOOSE j \in EnterIdx(i) : TRUE  xi == CHOOSE j \in ExitIdx(i) : TRUE
                ek == CHOOSE j \in EnterIdx(k) : TRUE  xk == CHOOSE j \in ExitIdx(k) : TRUE
            IN ek < ei /\ xi < xk
\* values observed at both ends follow from the last rewrite on the way in / out
FarSideSeesLastRewrite == R.handlerArg[1] = 1 + Cardinality({i \in Layers : Chain(ctor, prov, added)[i] = "arg"})
\* the case list for the drivers
AllCases == {[ctor |-> c, prov |-> p, added |-> a, want |-> Invoke(Chain(c, p, a), 1)] : c \in Lists(MaxLen), p \in Lists(MaxLen), a \in Lists(1)}
ASSUME JsonSerialize("middleware_cases.json", SetToSeq(AllCases))
ASSUME PrintT("CASES " \o ToString(Cardinality(AllCases)))
=============================================================================
