------------------------------ MODULE SizeLimit ------------------------------
(***************************************************************************)
(* TMemoryOutputBuffer (bounded_memory_buffer.go) and the way an overflow  *)
(* travels: client prepareMessage -> transport check; server SendReply ->  *)
(* trapError -> application exception 100 -> client transport exception    *)
(* RESPONSE_TOO_LARGE (processor.go, client.go, nats_server.go).            *)
(* A message is the sequence of primitive writes the Thrift encoder makes  *)
(* (Write([]byte), WriteByte, WriteString); 4 bytes of frame prefix count. *)
(***************************************************************************)
EXTENDS Integers, Sequences, FiniteSets, TLC
CONSTANTS Sizes,        \* sizes a single write may have
          MaxWrites,    \* writes per message
          L,            \* buffer limit (0 = unbounded)
          Broker,       \* hard limit of the carrier (NATS max payload); 0 = none
          Covers        \* "all": Write, WriteByte, WriteString are limited | "write": only Write is (pinned code)
Kinds == {"W", "B", "S"}      \* Write([]byte), WriteByte, WriteString
Writes == [k : Kinds, n : Sizes]
Msgs == UNION {[1..m -> Writes] : m \in 1..MaxWrites}
Total(m) == LET RECURSIVE Sum(_) Sum(i) == IF i = 0 THEN 0 ELSE m[i].n + Sum(i - 1) IN 4 + Sum(Len(m))
Checked(w) == Covers = "all" \/ w.k = "W"
\* run the buffer over the message: result <<status, bytes in buffer>>
RECURSIVE Run(_, _, _)
Run(m, i, len) ==
  IF i > Len(m) THEN <<"ok", len>>
  ELSE IF L > 0 /\ Checked(m[i]) /\ m[i].n + len > L THEN <<"toolarge", 4>>      \* Reset(): only the frame prefix is left
  ELSE Run(m, i + 1, len + m[i].n)
Buffer(m) == Run(m, 1, 4)
\* client request path: prepareMessage, then the transport's own check, then the carrier
Request(m) == LET b == Buffer(m) IN
  IF b[1] = "toolarge" THEN [outcome |-> "REQUEST_TOO_LARGE", sent |-> 0]
  ELSE IF L > 0 /\ b[2] > L THEN [outcome |-> "REQUEST_TOO_LARGE", sent |-> 0]        \* checkMessageSize / HTTP limit
  ELSE [outcome |-> "sent", sent |-> b[2]]
\* server reply path (NATS server: output buffer with limit L, carrier refuses more than Broker)
Reply(m) == LET b == Buffer(m) IN
  IF b[1] = "toolarge" THEN "RESPONSE_TOO_LARGE"        \* trapError -> exception 100 -> client maps to 101
  ELSE IF Broker > 0 /\ b[2] > Broker THEN "TIMEOUT"    \* publish fails, nothing reaches the caller
  ELSE "RESULT"
\* ---------------- C12 ----------------
\* what the buffer must show for message m: status, bytes held afterwards, and that it is reusable
Case(m) == [writes |-> m, limit |-> L, status |-> Buffer(m)[1], held |-> Buffer(m)[2], total |-> Total(m),
            request |-> Request(m).outcome, sent |-> Request(m).sent, reply |-> Reply(m)]
VARIABLE m
Init == m \in Msgs
Next == UNCHANGED m
Spec == Init /\ [][Next]_m
Exact == L > 0 => ((Request(m).outcome = "sent") <=> (Total(m) <= L))
NothingSentWhenRejected == Request(m).outcome # "sent" => Request(m).sent = 0
SentWhole == Request(m).outcome = "sent" => Request(m).sent = Total(m)
ReplyNeverTimesOut == Reply(m) # "TIMEOUT"
ReplyExact == L > 0 => ((Reply(m) = "RESULT") <=> (Total(m) <= L))
=============================================================================
