----------------------------- MODULE NatsServer -----------------------------
(***************************************************************************)
(* fNatsServer (nats_server.go): Serve / Stop, the subscription callback   *)
(* (handler) pushing into workC, W workers (processFrame + reply publish), *)
(* and the shutdown sequence  quit rendezvous -> sub.Drain -> conn.Flush   *)
(* -> conn.Barrier -> done -> close(workC) -> wg.Wait.                     *)
(* The nats.go contract is part of the environment, as read in v1.33.1:    *)
(* Drain removes the server-side interest but callbacks continue; a        *)
(* message leaves the pending list when its callback is invoked; Barrier   *)
(* runs after the callback of every earlier pending message returned, or   *)
(* immediately if the subscription is already gone.                        *)
(***************************************************************************)
EXTENDS Integers, Sequences, FiniteSets, TLC
CONSTANTS Msgs,       \* request ids the publisher may send, in this order 1..N
          Workers,    \* worker ids
          QLen,       \* capacity of workC (0 = unbuffered)
          CloseEarly, \* deviation: Serve closes workC without waiting for the barrier
          StopHandoff \* "blocking" (Stop waits until Serve receives on quit) | "nonblocking" (deviation: Stop gives up when nobody is receiving yet)
VARIABLES next,       \* next request id the publisher will send
          interest,   \* server-side subscription interest
          pending,    \* client-lib pending list of the subscription (seq of ids, 0 = barrier marker)
          cb,         \* callback goroutine: 0 idle, m > 0 holding message m (blocked on / about to push)
          subLive,    \* subscription still registered in the client lib
          workC, workClosed,
          wk,         \* worker -> 0 idle | m processing | -m replying | -1000 exited
          serve, stop, barrierDone,
          accepted,   \* ids that reached the client lib before Stop was called
          lateSet,    \* ids published after Stop returned
          processed,  \* id -> handler invocations
          replied,    \* ids whose reply was published
          panic
vars == <<next, interest, pending, cb, subLive, workC, workClosed, wk, serve, stop, barrierDone,
          accepted, lateSet, processed, replied, panic>>
N == Cardinality(Msgs)
Init == /\ next = 1 /\ interest = TRUE /\ pending = <<>> /\ cb = 0 /\ subLive = TRUE
        /\ workC = <<>> /\ workClosed = FALSE
        /\ wk = [w \in Workers |-> 0]
        /\ serve = "starting" /\ stop = "idle" /\ barrierDone = FALSE
        /\ accepted = {} /\ lateSet = {} /\ processed = [m \in Msgs |-> 0] /\ replied = {} /\ panic = FALSE
\* publisher (its Flush is implicit: a published message reaches the server immediately)
Publish == /\ next <= N
           /\ next' = next + 1
           /\ IF interest THEN pending' = Append(pending, next) ELSE pending' = pending
           /\ accepted' = IF interest /\ stop = "idle" THEN accepted \cup {next} ELSE accepted
           /\ lateSet' = IF stop = "returned" THEN lateSet \cup {next} ELSE lateSet
           /\ UNCHANGED <<interest, cb, subLive, workC, workClosed, wk, serve, stop, barrierDone, processed, replied, panic>>
\* nats.go delivery goroutine of the subscription
CbTake == /\ cb = 0 /\ pending # <<>> /\ subLive
          /\ IF Head(pending) = 0
               THEN barrierDone' = TRUE /\ cb' = 0
               ELSE cb' = Head(pending) /\ UNCHANGED barrierDone
          /\ pending' = Tail(pending)
          /\ UNCHANGED <<next, interest, subLive, workC, workClosed, wk, serve, stop, accepted, lateSet, processed, replied, panic>>
\* handler: workC <- frame ; buffered part
CbPush == /\ cb > 0
          /\ IF workClosed THEN panic' = TRUE /\ cb' = 0 /\ UNCHANGED workC
             ELSE /\ Len(workC) < QLen /\ workC' = Append(workC, cb) /\ cb' = 0 /\ UNCHANGED panic
          /\ UNCHANGED <<next, interest, pending, subLive, workClosed, wk, serve, stop, barrierDone, accepted, lateSet, processed, replied>>
\* unbuffered hand-off (and direct hand-off in general): idle worker receives straight from the sender
Handoff(w) == /\ cb > 0 /\ ~workClosed /\ wk[w] = 0 /\ workC = <<>>
              /\ wk' = [wk EXCEPT ![w] = cb] /\ cb' = 0
              /\ UNCHANGED <<next, interest, pending, subLive, workC, workClosed, serve, stop, barrierDone, accepted, lateSet, processed, replied, panic>>
WTake(w) == /\ wk[w] = 0 /\ workC # <<>>
            /\ wk' = [wk EXCEPT ![w] = Head(workC)] /\ workC' = Tail(workC)
            /\ UNCHANGED <<next, interest, pending, cb, subLive, workClosed, serve, stop, barrierDone, accepted, lateSet, processed, replied, panic>>
WProcess(w) == /\ wk[w] > 0
               /\ processed' = [processed EXCEPT ![wk[w]] = @ + 1]
               /\ wk' = [wk EXCEPT ![w] = -wk[w]]
               /\ UNCHANGED <<next, interest, pending, cb, subLive, workC, workClosed, serve, stop, barrierDone, accepted, lateSet, replied, panic>>
WReply(w) == /\ wk[w] < 0 /\ wk[w] > -1000
             /\ replied' = replied \cup {-wk[w]}
             /\ wk' = [wk EXCEPT ![w] = 0]
             /\ UNCHANGED <<next, interest, pending, cb, subLive, workC, workClosed, serve, stop, barrierDone, accepted, lateSet, processed, panic>>
WExit(w) == /\ wk[w] = 0 /\ workC = <<>> /\ workClosed
            /\ wk' = [wk EXCEPT ![w] = -1000]
            /\ UNCHANGED <<next, interest, pending, cb, subLive, workC, workClosed, serve, stop, barrierDone, accepted, lateSet, processed, replied, panic>>
\* Serve has subscribed, started its workers and parks on <-f.quit
ServeReady == /\ serve = "starting" /\ serve' = "running"
              /\ UNCHANGED <<next, interest, pending, cb, subLive, workC, workClosed, wk, stop, barrierDone, accepted, lateSet, processed, replied, panic>>
\* deviation: a Stop that finds nobody receiving on quit returns at once; the stop request is lost
StopGiveUp == /\ StopHandoff = "nonblocking" /\ stop = "idle" /\ serve = "starting"
              /\ stop' = "returned"
              /\ UNCHANGED <<next, interest, pending, cb, subLive, workC, workClosed, wk, serve, barrierDone, accepted, lateSet, processed, replied, panic>>
\* Stop: f.quit <- done (rendezvous with Serve: Stop waits until Serve receives) ; <-done
StopCall == /\ stop = "idle" /\ serve = "running"
            /\ stop' = "waitdone" /\ serve' = "drain"
            /\ UNCHANGED <<next, interest, pending, cb, subLive, workC, workClosed, wk, barrierDone, accepted, lateSet, processed, replied, panic>>
Drain == /\ serve = "drain" /\ interest' = FALSE /\ serve' = "flush"
         /\ UNCHANGED <<next, pending, cb, subLive, workC, workClosed, wk, stop, barrierDone, accepted, lateSet, processed, replied, panic>>
\* checkDrained goroutine of nats.go: removes the sub once nothing is pending and no callback runs
SubGone == /\ ~interest /\ subLive /\ pending = <<>> /\ cb = 0
           /\ subLive' = FALSE
           /\ UNCHANGED <<next, interest, pending, cb, workC, workClosed, wk, serve, stop, barrierDone, accepted, lateSet, processed, replied, panic>>
Flush == /\ serve = "flush" /\ serve' = "barrier"
         /\ UNCHANGED <<next, interest, pending, cb, subLive, workC, workClosed, wk, stop, barrierDone, accepted, lateSet, processed, replied, panic>>
Barrier == /\ serve = "barrier"
           /\ IF CloseEarly THEN barrierDone' = TRUE /\ UNCHANGED pending
              ELSE IF subLive THEN pending' = Append(pending, 0) /\ UNCHANGED barrierDone
              ELSE barrierDone' = TRUE /\ UNCHANGED pending
           /\ serve' = "waitbarrier"
           /\ UNCHANGED <<next, interest, cb, subLive, workC, workClosed, wk, stop, accepted, lateSet, processed, replied, panic>>
DoneSend == /\ serve = "waitbarrier" /\ barrierDone /\ stop = "waitdone"
            /\ serve' = "closeq" /\ stop' = "returned"
            /\ UNCHANGED <<next, interest, pending, cb, subLive, workC, workClosed, wk, barrierDone, accepted, lateSet, processed, replied, panic>>
CloseQ == /\ serve = "closeq" /\ workClosed' = TRUE /\ serve' = "waitworkers"
          /\ UNCHANGED <<next, interest, pending, cb, subLive, workC, wk, stop, barrierDone, accepted, lateSet, processed, replied, panic>>
ServeRet == /\ serve = "waitworkers" /\ \A w \in Workers : wk[w] = -1000
            /\ serve' = "returned"
            /\ UNCHANGED <<next, interest, pending, cb, subLive, workC, workClosed, wk, stop, barrierDone, accepted, lateSet, processed, replied, panic>>
Sys == \/ ServeReady \/ StopGiveUp \/ CbTake \/ CbPush \/ StopCall \/ Drain \/ SubGone \/ Flush \/ Barrier \/ DoneSend \/ CloseQ \/ ServeRet
       \/ \E w \in Workers : Handoff(w) \/ WTake(w) \/ WProcess(w) \/ WReply(w) \/ WExit(w)
Next == Publish \/ Sys
Spec == Init /\ [][Next]_vars /\ WF_vars(ServeReady \/ CbTake \/ CbPush \/ Drain \/ SubGone \/ Flush \/ Barrier \/ DoneSend \/ CloseQ \/ ServeRet \/ (\E w \in Workers : Handoff(w) \/ WTake(w) \/ WProcess(w) \/ WReply(w) \/ WExit(w))) 
\* ----- properties (C20) -----
AtMostOnce == \A m \in Msgs : processed[m] <= 1
Drained == serve = "returned" => \A m \in accepted : processed[m] = 1 /\ m \in replied
NoLate == \A m \in lateSet : processed[m] = 0
NoPanic == ~panic
Termination == (stop \in {"waitdone", "returned"}) ~> (stop = "returned" /\ serve = "returned")
=============================================================================
