SPECIFICATION Spec
CONSTANTS Callers = {1,2} Unknown = {9} MaxFrames = 4 Cap = 1 Dispatch = "nonblocking" Variant = "adapter"
INVARIANTS TypeOK Correlated ChannelOwn ReaderNeverBlocked NoLeak RegisteredIffInFlight TimeoutMeansExpired
PROPERTIES DiscardInert ReaderProgress Returns
CHECK_DEADLOCK FALSE
