SPECIFICATION Spec
CONSTANTS MaxEntries = 2
CHECK_DEADLOCK FALSE
