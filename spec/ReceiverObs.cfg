SPECIFICATION TSpec
INVARIANT AllExplained
CHECK_DEADLOCK FALSE
