SPECIFICATION Spec
CONSTANTS N = 4 Workers = {1} QLen = 2 OnShort = "exit" AllowUnsub = FALSE
INVARIANTS AtMostOnce OnlyOk InOrder NoLate AckIffDelivered
PROPERTIES Eventually
CHECK_DEADLOCK FALSE
