------------------------------ MODULE ClientMux ------------------------------
(***************************************************************************)
(* Multiplexed client transport of the Go runtime:                         *)
(*   registry.go (Register / Unregister / Execute / dispatch),             *)
(*   adapter_transport.go and nats_transport.go (Request).                 *)
(* One action per critical section / channel operation of the code.        *)
(* The peer is adversarial: it may deliver a frame for any op id at any    *)
(* time, any number of times (C01, C06); the send goroutine may succeed,   *)
(* fail or stall and the peer may never answer (C13).                     *)
(***************************************************************************)
EXTENDS Integers, Sequences, FiniteSets, TLC
CONSTANTS Callers,        \* op ids of the requests (one FContext each), positive integers
          Unknown,        \* op ids never issued
          MaxFrames,      \* bound on frames the peer delivers
          Cap,            \* capacity of the per-request result channel (1 in the code)
          Dispatch,       \* "nonblocking" (select/default: drop when full) | "blocking" (send blocks) | "locked" (blocking send under RLock)
          Variant         \* "adapter" (separate send goroutine, ctx deadline) | "nats" (inline publish, 503 status route)
ASSUME Cap \in Nat /\ Dispatch \in {"nonblocking", "blocking", "locked"} /\ Variant \in {"adapter", "nats"}
Ops == Callers \cup Unknown
NONE == 0  TIMEOUT == -1  SENDERR == -2  UNAVAILABLE == -3
VARIABLES
  cpc,      \* caller pc: "idle" | "wait" (registered, in select) | "got" (select returned, before deferred Unregister) | "done"
  snd,      \* send goroutine of the request: "none" | "run" | "ok" | "err" | "stall"
  expired,  \* the request's deadline has passed (ctx.Done() / time.After is ready)
  reg,      \* registered op ids (keys of fRegistryImpl.channels)
  ch,       \* ch[c]: contents of the request's result channel: op id carried by the frame, or UNAVAILABLE
  res,      \* what Request returned: NONE | op id of the returned frame | TIMEOUT | SENDERR | UNAVAILABLE
  rd,       \* reader (readLoop / NATS callback): <<"idle">> | <<"send", o, v>> holding the channel looked up for o, about to send v
  rlock,    \* reader holds the registry read lock (only in the "locked" deviation)
  frames    \* frames delivered so far
vars == <<cpc, snd, expired, reg, ch, res, rd, rlock, frames>>

Init == /\ cpc = [c \in Callers |-> "idle"] /\ snd = [c \in Callers |-> "none"]
        /\ expired = [c \in Callers |-> FALSE]
        /\ reg = {} /\ ch = [c \in Callers |-> <<>>] /\ res = [c \in Callers |-> NONE]
        /\ rd = <<"idle">> /\ rlock = FALSE /\ frames = 0

\* ---- caller: Request() ----
\* registry.Register under the write lock, then `go f.send(...)` (adapter) / PublishRequest (nats)
Register(c) == /\ cpc[c] = "idle" /\ ~rlock
               /\ reg' = reg \cup {c} /\ cpc' = [cpc EXCEPT ![c] = "wait"]
               /\ snd' = [snd EXCEPT ![c] = IF Variant = "adapter" THEN "run" ELSE "ok"]
               /\ UNCHANGED <<expired, ch, res, rd, rlock, frames>>
\* go f.send(...): Write + Flush succeed, fail, or block forever
SendOk(c)    == snd[c] = "run" /\ snd' = [snd EXCEPT ![c] = "ok"]    /\ UNCHANGED <<cpc, expired, reg, ch, res, rd, rlock, frames>>
SendFail(c)  == snd[c] = "run" /\ snd' = [snd EXCEPT ![c] = "err"]   /\ UNCHANGED <<cpc, expired, reg, ch, res, rd, rlock, frames>>
SendStall(c) == snd[c] = "run" /\ snd' = [snd EXCEPT ![c] = "stall"] /\ UNCHANGED <<cpc, expired, reg, ch, res, rd, rlock, frames>>
Expire(c) == /\ cpc[c] = "wait" /\ ~expired[c] /\ expired' = [expired EXCEPT ![c] = TRUE]
             /\ UNCHANGED <<cpc, snd, reg, ch, res, rd, rlock, frames>>
\* the select in Request: any ready case may be chosen
Recv(c) == /\ cpc[c] = "wait" /\ ch[c] # <<>>
           /\ res' = [res EXCEPT ![c] = Head(ch[c])] /\ ch' = [ch EXCEPT ![c] = Tail(@)]
           /\ cpc' = [cpc EXCEPT ![c] = "got"] /\ UNCHANGED <<snd, expired, reg, rd, rlock, frames>>
RecvErr(c) == /\ cpc[c] = "wait" /\ snd[c] = "err"
              /\ res' = [res EXCEPT ![c] = SENDERR] /\ cpc' = [cpc EXCEPT ![c] = "got"]
              /\ UNCHANGED <<snd, expired, reg, ch, rd, rlock, frames>>
Timeout(c) == /\ cpc[c] = "wait" /\ expired[c]
              /\ res' = [res EXCEPT ![c] = TIMEOUT] /\ cpc' = [cpc EXCEPT ![c] = "got"]
              /\ UNCHANGED <<snd, expired, reg, ch, rd, rlock, frames>>
\* deferred registry.Unregister under the write lock
Unregister(c) == /\ cpc[c] = "got" /\ ~rlock
                 /\ reg' = reg \ {c} /\ cpc' = [cpc EXCEPT ![c] = "done"]
                 /\ UNCHANGED <<snd, expired, ch, res, rd, rlock, frames>>
\* a second Request with the FContext of an in-flight request (same op id): the NATS transport rejects it
\* ("context already registered") and must leave the pending registration alone
Collide(c) == Variant = "nats" /\ cpc[c] \in {"wait", "got"} /\ ~rlock /\ UNCHANGED vars
\* ---- reader: Execute -> dispatch ----
\* lookup under RLock; v is what will be sent: the frame (identified by the op id it carries)
LookupV(o, v) == /\ rd = <<"idle">> /\ frames < MaxFrames
                 /\ frames' = frames + 1
                 /\ IF o \in reg THEN rd' = <<"send", o, v>> /\ rlock' = (Dispatch = "locked")
                                ELSE rd' = <<"idle">> /\ rlock' = FALSE      \* "unregistered context": frame dropped
                 /\ UNCHANGED <<cpc, snd, expired, reg, ch, res>>
Lookup(o) == LookupV(o, o)                                       \* a response frame whose _opid header is o
Status503(o) == Variant = "nats" /\ LookupV(o, UNAVAILABLE)      \* NATS "no responders" status on subject <inbox>.<o>
\* the channel send after RUnlock
DeliverPut == /\ rd[1] = "send" /\ Len(ch[rd[2]]) < Cap
              /\ ch' = [ch EXCEPT ![rd[2]] = Append(@, rd[3])]
              /\ rd' = <<"idle">> /\ rlock' = FALSE
              /\ UNCHANGED <<cpc, snd, expired, reg, res, frames>>
DeliverDrop == /\ rd[1] = "send" /\ Len(ch[rd[2]]) >= Cap /\ Dispatch = "nonblocking"
               /\ rd' = <<"idle">> /\ rlock' = FALSE
               /\ UNCHANGED <<cpc, snd, expired, reg, ch, res, frames>>
Deliver == DeliverPut \/ DeliverDrop
Reader == (\E o \in Ops : Lookup(o) \/ Status503(o)) \/ Deliver
CallerStep(c) == Register(c) \/ Collide(c) \/ SendOk(c) \/ SendFail(c) \/ SendStall(c) \/ Recv(c) \/ RecvErr(c) \/ Timeout(c) \/ Unregister(c)
Next == Reader \/ \E c \in Callers : CallerStep(c) \/ Expire(c)
\* every deadline eventually passes; callers and reader keep running; the send goroutine owes nothing
Fair == /\ WF_vars(Deliver)
        /\ \A c \in Callers : WF_vars(Expire(c)) /\ WF_vars(Timeout(c) \/ Recv(c) \/ RecvErr(c)) /\ WF_vars(Unregister(c)) /\ WF_vars(Register(c))
Spec == Init /\ [][Next]_vars /\ Fair
\* ---------------- properties ----------------
TypeOK == /\ reg \subseteq Callers /\ \A c \in Callers : Len(ch[c]) <= Cap
\* C01: a request completes successfully only with the frame carrying its own op id
Correlated == \A c \in Callers : res[c] \in {NONE, TIMEOUT, SENDERR, UNAVAILABLE, c}
\* C01: frames for unknown / finished requests are inert (checked as an action property)
DiscardInert == [][ \A o \in Ops : ((Lookup(o) \/ Status503(o)) /\ o \notin reg) => UNCHANGED <<cpc, snd, expired, reg, ch, res>> ]_vars
\* C01: what is in a request's channel was looked up under that request's id
ChannelOwn == \A c \in Callers : \A i \in 1..Len(ch[c]) : ch[c][i] \in {c, UNAVAILABLE}
\* C06: the reader can always finish the frame in hand without help from any caller
ReaderNeverBlocked == rd[1] = "send" => ENABLED Deliver
\* C06 (temporal form): the reader always returns to idle
ReaderProgress == []<>(rd = <<"idle">>)
\* C13: every started request returns, whatever the peer and the send goroutine do, and leaves nothing behind
Returns == \A c \in Callers : (cpc[c] = "wait") ~> (cpc[c] = "done")
NoLeak == (\A c \in Callers : cpc[c] \in {"idle", "done"}) => reg = {}
RegisteredIffInFlight == \A c \in Callers : (c \in reg) <=> cpc[c] \in {"wait", "got"}
TimeoutMeansExpired == \A c \in Callers : res[c] = TIMEOUT => expired[c]
=============================================================================
