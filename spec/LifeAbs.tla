------------------------------- MODULE LifeAbs -------------------------------
(***************************************************************************)
(* What a user of a client FTransport may rely on (C15), as a sequential   *)
(* state machine over the user-visible state: IsOpen(), the value          *)
(* published on each generation's Closed() channel, and the sequence of    *)
(* FTransportMonitor callbacks.  Steps are the user's Open / Close and the *)
(* environment's faults, each taken to quiescence.                         *)
(* "Clean" = user Close() or the peer ending the stream (END_OF_FILE), as  *)
(* the Go read loop and Java's isCleanClose define it.                     *)
(***************************************************************************)
EXTENDS Integers, Sequences, FiniteSets, TLC
CONSTANTS MaxGen,        \* bound on successful opens
          MaxAttempts,   \* BaseFTransportMonitor.MaxReopenAttempts
          InitialWait, MaxWait,   \* ms
          WithMonitor
Kinds == {"eof", "err", "badframe"}
Min(a, b) == IF a < b THEN a ELSE b
Cause(kind) == IF kind = "eof" THEN "nil" ELSE "err"
AbsInit == [open |-> FALSE, gen |-> 0, cause |-> [g \in 1..MaxGen |-> "none"],
            alive |-> WithMonitor, log |-> <<>>, res |-> "none"]
\* monitor callbacks are records: [cb, n (attempt number), w (wait in ms)]
CB(cb, n, w) == [cb |-> cb, n |-> n, w |-> w]
AbsOpen(s) == IF s.open THEN [s EXCEPT !.res = "ALREADY_OPEN"]
              ELSE [s EXCEPT !.open = TRUE, !.gen = s.gen + 1, !.res = "ok"]
AbsOpenFail(s) == IF s.open THEN [s EXCEPT !.res = "ALREADY_OPEN"] ELSE [s EXCEPT !.res = "openerr"]
AbsClose(s) == IF ~s.open THEN [s EXCEPT !.res = "NOT_OPEN"]
               ELSE [s EXCEPT !.open = FALSE, !.cause[s.gen] = "nil", !.res = "closed",
                              !.log = IF s.alive THEN Append(s.log, CB("cleanly", 0, 0)) ELSE s.log,
                              !.alive = FALSE]
\* the underlying Close() fails: the error is returned and the transport stays open (and closable later)
AbsCloseFail(s) == IF ~s.open THEN [s EXCEPT !.res = "NOT_OPEN"] ELSE [s EXCEPT !.res = "closeerr"]
\* the reopen loop of the monitor runner after an unclean close: k = number of underlying Open() failures to come
RECURSIVE Reopen(_, _, _, _)
Reopen(s, k, n, w) ==        \* n = failed attempts so far, w = wait before the next attempt
  IF k = 0 THEN [s EXCEPT !.open = TRUE, !.gen = s.gen + 1, !.log = Append(s.log, CB("reopened", n, w))]
  ELSE LET s2 == [s EXCEPT !.log = Append(s.log, CB("reopenfailed", n + 1, w))] IN
       IF n + 1 >= MaxAttempts THEN [s2 EXCEPT !.alive = FALSE]
       ELSE Reopen(s2, k - 1, n + 1, Min(2 * w, MaxWait))
AbsFault(s, kind, k) ==
  LET c == Cause(kind)
      s1 == [s EXCEPT !.open = FALSE, !.cause[s.gen] = c, !.res = "fault"] IN
  IF ~s.alive THEN s1
  ELSE IF c = "nil" THEN [s1 EXCEPT !.log = Append(s1.log, CB("cleanly", 0, 0)), !.alive = FALSE]
  ELSE LET s2 == [s1 EXCEPT !.log = Append(s1.log, CB("uncleanly", 0, 0))] IN
       IF MaxAttempts = 0 THEN [s2 EXCEPT !.alive = FALSE]
       ELSE Reopen(s2, k, 0, InitialWait)
\* ---- the abstract machine itself ----
VARIABLE a
AInit == a = AbsInit
ANext == \/ a.gen < MaxGen /\ a' = AbsOpen(a)
         \/ a' = AbsClose(a)
         \/ a' = AbsCloseFail(a)
         \/ \E kind \in Kinds, k \in 0..MaxAttempts :
               a.open /\ (k = 0 \/ (a.alive /\ Cause(kind) = "err")) /\ (a.gen < MaxGen \/ k >= MaxAttempts \/ ~a.alive \/ Cause(kind) = "nil")
               /\ a' = AbsFault(a, kind, k)
ASpec == AInit /\ [][ANext]_a
\* ---- C15, stated on the user-visible state ----
\* a failure always ends with the generation it hit closed and its cause published; nil only for a clean close
ClosedAfterFault == (a.res = "fault") => a.cause[IF a.open THEN a.gen - 1 ELSE a.gen] # "none"
CausePublishedOnce == \A g \in 1..MaxGen : (g < a.gen \/ (g = a.gen /\ ~a.open)) <=> a.cause[g] # "none"
\* callbacks: attempts bounded, waits bounded and doubling
Fails(l) == {i \in 1..Len(l) : l[i].cb = "reopenfailed"}
AttemptsBounded == \A i \in Fails(a.log) : a.log[i].n <= MaxAttempts
WaitsBounded == \A i \in 1..Len(a.log) : a.log[i].w <= (IF InitialWait > MaxWait THEN InitialWait ELSE MaxWait)
\* the monitor hears of every close while its runner is alive, and a live runner means the transport is open again
AliveMeansOpen == (WithMonitor /\ a.alive /\ a.gen > 0) => a.open
StepAction == [][a'.gen >= a.gen /\ Len(a'.log) >= Len(a.log)]_a
=============================================================================
