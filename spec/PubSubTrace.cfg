SPECIFICATION TSpec
CONSTANTS N = 12 Workers = {1,2,3} QLen = 64 OnShort = "skip" AllowUnsub = TRUE
INVARIANTS AtMostOnce OnlyOk NoLate
CONSTRAINT HighWater
POSTCONDITION Accepted
CHECK_DEADLOCK FALSE
