SPECIFICATION Spec
CONSTANTS MaxGen = 3 MaxAttempts = 1 InitialWait = 1 MaxWait = 3 WithMonitor = FALSE CloseSignal = "pergen" Sequential = FALSE AllowCloseFail = FALSE
INVARIANTS FailureDetected OpenHasReader OneCause ClosedHasCause CauseNilIffClean NoSpuriousClose AttemptsBounded WaitBounded MonitorToldEveryClose QuietMatch
PROPERTIES CloseReturns
CHECK_DEADLOCK FALSE
