------------------------------- MODULE Audit -------------------------------
(***************************************************************************)
(* C18: the IDL audit (compiler/parser/audit.go).  Programs are values of  *)
(* a reduced abstract IDL (typedef chain, enum, struct / union / exception *)
(* with fields of every requiredness, nested containers, a service with    *)
(* extends / oneway / throws, a scope with a prefix).  Breaking(old, new)  *)
(* is the documented catalogue, written declaratively from the rule        *)
(* comments in audit.go.  The state machine applies catalogue edits at     *)
(* every applicable site of the evolving program; every reached program is *)
(* emitted with the verdict Breaking(Base, new) - so an edit that is       *)
(* undone again is not breaking.                                           *)
(***************************************************************************)
EXTENDS Integers, Sequences, FiniteSets, TLC, Json
\* ---------- abstract IDL (reduced) ----------
\* Type: [k |-> "base", n |-> name] | [k |-> "list", v |-> T] | [k |-> "map", key |-> T, v |-> T] | [k |-> "ref", n |-> name]
B(n) == [k |-> "base", n |-> n]
L(t) == [k |-> "list", v |-> t]
M(a, b) == [k |-> "map", key |-> a, v |-> b]
R(n) == [k |-> "ref", n |-> n]
\* Field: [id, req \in {"required","optional","default"}, t, name]
F(id, req, t, name) == [id |-> id, req |-> req, t |-> t, name |-> name]
Base == [
  typedefs |-> << [name |-> "MyInt", t |-> B("i32")], [name |-> "MyInt2", t |-> R("MyInt")], [name |-> "MyList", t |-> L(R("MyInt"))] >>,
  enums    |-> << [name |-> "E1", vals |-> << [name |-> "A", v |-> 1], [name |-> "B", v |-> 2] >> ] >>,
  structs  |-> << [kind |-> "struct", name |-> "S1",
                   fields |-> << F(1, "default", B("i32"), "a"), F(2, "optional", B("string"), "b"),
                                 F(4, "required", R("E1"), "e"), F(6, "default", M(B("string"), L(R("MyInt2"))), "m"),
                                 F(8, "default", R("MyList"), "l") >> ],
                  [kind |-> "union", name |-> "U1", fields |-> << F(1, "optional", B("i32"), "x"), F(2, "optional", B("string"), "y") >> ],
                  [kind |-> "exception", name |-> "Ex1", fields |-> << F(1, "default", B("string"), "msg") >> ] >>,
  services |-> << [name |-> "Svc", extends |-> "Base0",
                   methods |-> << [name |-> "f1", oneway |-> FALSE, ret |-> <<B("i32")>>, args |-> << F(1, "default", R("MyInt2"), "a"), F(5, "default", B("string"), "s5") >>, throws |-> << F(1, "optional", R("Ex1"), "e1") >> ],
                                  [name |-> "f2", oneway |-> FALSE, ret |-> <<>>, args |-> <<>>, throws |-> << F(1, "optional", R("Ex1"), "e1") >> ],
                                  [name |-> "f3", oneway |-> TRUE, ret |-> <<>>, args |-> << F(1, "default", B("string"), "s") >>, throws |-> <<>> ] >> ] >>,
  scopes   |-> << [name |-> "Sc", prefix |-> << "foo", "{usr}", "bar" >>, ops |-> << [name |-> "Op1", t |-> R("S1")], [name |-> "Op2", t |-> R("MyInt2")] >> ],
                  \* a scope that declares no prefix (its topics start with the scope name): giving it one changes every topic
                  [name |-> "Bare", prefix |-> << >>, ops |-> << [name |-> "Op1", t |-> B("string")] >> ] >>
]
CONSTANTS MaxDepth,
          OnlyCompatible   \* TRUE: walk only through programs the catalogue calls compatible (the "nothing else" half)
VARIABLES new, depth, last
vars == <<new, depth, last>>
\* ---------- helpers ----------
Idx(s) == 1..Len(s)
SeqRemove(s, i) == [j \in 1..(Len(s) - 1) |-> IF j < i THEN s[j] ELSE s[j + 1]]
Find(s, name) == IF \E i \in Idx(s) : s[i].name = name THEN CHOOSE i \in Idx(s) : s[i].name = name ELSE 0
RECURSIVE Underlying(_, _, _)
Underlying(p, t, fuel) ==
  IF t.k = "ref" /\ fuel > 0 /\ Find(p.typedefs, t.n) # 0
    THEN Underlying(p, p.typedefs[Find(p.typedefs, t.n)].t, fuel - 1) ELSE t
\* declarative type compatibility (what goes over the wire)
RECURSIVE SameType(_, _, _, _)
SameType(po, to, pn, tn) ==
  LET a == Underlying(po, to, 4)  b == Underlying(pn, tn, 4) IN
  /\ a.k = b.k
  /\ a.k \in {"base", "ref"} => a.n = b.n
  /\ a.k = "list" => SameType(po, a.v, pn, b.v)
  /\ a.k = "map" => SameType(po, a.key, pn, b.key) /\ SameType(po, a.v, pn, b.v)
FieldById(fs, id) == IF \E i \in Idx(fs) : fs[i].id = id THEN CHOOSE i \in Idx(fs) : fs[i].id = id ELSE 0
\* documented catalogue for a field list (struct-like, arguments, throws)
FieldsBreak(po, fo, pn, fn) ==
  \/ \E i \in Idx(fo) : LET j == FieldById(fn, fo[i].id) IN
        IF j = 0 THEN fo[i].req # "optional"                       \* non-optional field removed
        ELSE \/ ~SameType(po, fo[i].t, pn, fn[j].t)                \* retyped
             \/ (fo[i].req = "required") # (fn[j].req = "required") \* requiredness changed
  \/ \E j \in Idx(fn) : FieldById(fo, fn[j].id) = 0 /\ fn[j].req = "required"   \* added required
NormPrefix(p) == [i \in Idx(p) |-> IF Len(p[i]) > 0 /\ p[i] \in {"{usr}", "{vvv}", "{extra}"} THEN "{}" ELSE p[i]]
Breaking(po, pn) ==
  \/ \E i \in Idx(po.scopes) : LET j == Find(pn.scopes, po.scopes[i].name) IN
        \/ j = 0
        \/ NormPrefix(po.scopes[i].prefix) # NormPrefix(pn.scopes[j].prefix)
        \/ \E a \in Idx(po.scopes[i].ops) : LET b == Find(pn.scopes[j].ops, po.scopes[i].ops[a].name) IN
              b = 0 \/ ~SameType(po, po.scopes[i].ops[a].t, pn, pn.scopes[j].ops[b].t)
  \/ \E i \in Idx(po.enums) : LET j == Find(pn.enums, po.enums[i].name) IN
        j # 0 /\ \E a \in Idx(po.enums[i].vals) : ~\E b \in Idx(pn.enums[j].vals) : pn.enums[j].vals[b].v = po.enums[i].vals[a].v
  \/ \E i \in Idx(po.structs) :
        LET same == {j \in Idx(pn.structs) : pn.structs[j].name = po.structs[i].name /\ pn.structs[j].kind = po.structs[i].kind} IN
        \/ same = {}
        \/ \E j \in same : FieldsBreak(po, po.structs[i].fields, pn, pn.structs[j].fields)
  \/ \E i \in Idx(po.services) : LET j == Find(pn.services, po.services[i].name) IN
        \/ j = 0
        \/ po.services[i].extends # "" /\ po.services[i].extends # pn.services[j].extends
        \/ \E a \in Idx(po.services[i].methods) :
             LET mo == po.services[i].methods[a]  b == Find(pn.services[j].methods, mo.name) IN
             \/ b = 0
             \/ LET mn == pn.services[j].methods[b] IN
                \/ mo.oneway # mn.oneway
                \/ Len(mo.ret) # Len(mn.ret)
                \/ Len(mo.ret) = 1 /\ Len(mn.ret) = 1 /\ ~SameType(po, mo.ret[1], pn, mn.ret[1])
                \/ FieldsBreak(po, mo.args, pn, mn.args)
                \/ FieldsBreak(po, mo.throws, pn, mn.throws)
                \/ Len(mo.ret) = 0 /\ Len(mo.throws) = 0 /\ Len(mn.throws) > 0
                \/ Len(mn.ret) = 0 /\ Len(mn.throws) = 0 /\ Len(mo.throws) > 0
\* ---------- the edit machine ----------
Types == {B("i32"), B("i64"), B("string"), L(B("i32")), R("MyInt2"), R("E1")}
SetField(p, si, fi, f) == [p EXCEPT !.structs[si].fields[fi] = f]
Edit(p, q, lbl) == q # p /\ new' = q /\ last' = lbl
Edits(p) ==
  \/ \E si \in Idx(p.structs) : \E fi \in Idx(p.structs[si].fields) :
       \/ \E t \in Types : Edit(p, SetField(p, si, fi, [p.structs[si].fields[fi] EXCEPT !.t = t]), "retype-field")
       \/ \E r \in {"required", "optional", "default"} : p.structs[si].kind # "union" /\ Edit(p, SetField(p, si, fi, [p.structs[si].fields[fi] EXCEPT !.req = r]), "req-field")
       \/ Edit(p, [p EXCEPT !.structs[si].fields = SeqRemove(@, fi)], "remove-field")
       \/ Find(p.structs[si].fields, "renamed") = 0 /\      \* (a struct cannot have two fields of one name)
          Edit(p, SetField(p, si, fi, [p.structs[si].fields[fi] EXCEPT !.name = "renamed"]), "rename-field")
  \/ \E si \in Idx(p.structs), r \in {"required", "optional", "default"}, id \in {3, 9} :
       FieldById(p.structs[si].fields, id) = 0 /\ (p.structs[si].kind = "union" => r = "optional") /\
       Edit(p, [p EXCEPT !.structs[si].fields = Append(@, F(id, r, B("i32"), IF id = 9 THEN "z" ELSE "mid"))],
            IF id = 9 THEN "add-field" ELSE "add-field-in-the-middle")
  \/ \E si \in Idx(p.structs) : Edit(p, [p EXCEPT !.structs = SeqRemove(@, si)], "remove-struct")
  \/ \E ei \in Idx(p.enums) : ~(\E vi \in Idx(p.enums[ei].vals) : p.enums[ei].vals[vi].v = 9) /\
       Edit(p, [p EXCEPT !.enums[ei].vals = Append(@, [name |-> "NEWV", v |-> 9])], "add-enum-value")
  \/ \E vi \in Idx(p.services) : Find(p.services[vi].methods, "fnew") = 0 /\
       Edit(p, [p EXCEPT !.services[vi].methods = Append(@, [name |-> "fnew", oneway |-> FALSE, ret |-> <<B("i32")>>, args |-> <<>>, throws |-> <<>>])], "add-method")
  \/ \E ci \in Idx(p.scopes) : Find(p.scopes[ci].ops, "OpNew") = 0 /\
       Edit(p, [p EXCEPT !.scopes[ci].ops = Append(@, [name |-> "OpNew", t |-> B("i32")])], "add-op")
  \/ \E ti \in Idx(p.typedefs), t \in {B("i32"), B("i64"), R("MyInt"), L(B("i32")), L(B("i64"))} :
       (t.k = "ref" => t.n # p.typedefs[ti].name) /\ Edit(p, [p EXCEPT !.typedefs[ti].t = t], "retarget-typedef")
  \/ \E ei \in Idx(p.enums) : \E vi \in Idx(p.enums[ei].vals) :
       \/ Edit(p, [p EXCEPT !.enums[ei].vals = SeqRemove(@, vi)], "remove-enum-value")
       \/ Find(p.enums[ei].vals, "ZZ") = 0 /\ Edit(p, [p EXCEPT !.enums[ei].vals[vi].name = "ZZ"], "rename-enum-value")
  \/ \E vi \in Idx(p.services) : \E mi \in Idx(p.services[vi].methods) :
       \/ Edit(p, [p EXCEPT !.services[vi].methods = SeqRemove(@, mi)], "remove-method")
       \/ Edit(p, [p EXCEPT !.services[vi].methods[mi].oneway = ~@], "toggle-oneway")   \* may be ill-formed; filtered below
       \/ \E t \in {<<>>, <<B("i32")>>, <<B("i64")>>} : Edit(p, [p EXCEPT !.services[vi].methods[mi].ret = t], "change-ret")
       \/ Edit(p, [p EXCEPT !.services[vi].methods[mi].throws = <<>>], "drop-throws")
       \/ FieldById(p.services[vi].methods[mi].throws, 7) = 0 /\    \* (ids and names of a throws list are unique)
          Edit(p, [p EXCEPT !.services[vi].methods[mi].throws = Append(@, F(7, "optional", R("Ex1"), "e7"))], "add-throw")
       \/ \E ai \in Idx(p.services[vi].methods[mi].args) : \E t \in Types :
            Edit(p, [p EXCEPT !.services[vi].methods[mi].args[ai].t = t], "retype-arg")
       \/ \E id \in {3, 9}, r \in {"required", "default"} :
            FieldById(p.services[vi].methods[mi].args, id) = 0 /\
            Edit(p, [p EXCEPT !.services[vi].methods[mi].args = Append(@, F(id, r, B("i32"), IF id = 9 THEN "z" ELSE "mid"))],
                 IF id = 9 THEN "add-arg" ELSE "add-arg-in-the-middle")
       \/ \E ai \in Idx(p.services[vi].methods[mi].args) :
            Edit(p, [p EXCEPT !.services[vi].methods[mi].args = SeqRemove(@, ai)], "remove-arg")
  \/ \E vi \in Idx(p.services), e \in {"", "Other", "inca.Base0", "incb.Base0"} :     \* (two included files declare a Base0 of their own)
        e # p.services[vi].extends /\ Edit(p, [p EXCEPT !.services[vi].extends = e], "change-extends")
  \/ \E ci \in Idx(p.scopes) :
       \/ \E pre \in {<<"foo", "{vvv}", "bar">>, <<"foo", "{usr}", "baz">>, <<"foo", "{usr}">>, <<>>, <<"foo", "{usr}", "{extra}", "bar">>} :
            Edit(p, [p EXCEPT !.scopes[ci].prefix = pre], "change-prefix")
       \/ \E oi \in Idx(p.scopes[ci].ops) :
            \/ Edit(p, [p EXCEPT !.scopes[ci].ops = SeqRemove(@, oi)], "remove-op")
            \/ \E t \in {B("i32"), B("i64"), R("S1"), R("U1")} : Edit(p, [p EXCEPT !.scopes[ci].ops[oi].t = t], "retype-op")
\* well-formedness the compiler enforces (so that both files parse)
Resolves(p, t) == t.k = "ref" => \/ Find(p.typedefs, t.n) # 0 \/ Find(p.enums, t.n) # 0 \/ Find(p.structs, t.n) # 0
RECURSIVE TypeOK(_, _)
TypeOK(p, t) == CASE t.k = "list" -> TypeOK(p, t.v) [] t.k = "map" -> TypeOK(p, t.key) /\ TypeOK(p, t.v) [] OTHER -> Resolves(p, t)
WellFormed(p) ==
  /\ \A i \in Idx(p.structs) : \A f \in Idx(p.structs[i].fields) : TypeOK(p, p.structs[i].fields[f].t)
  /\ \A i \in Idx(p.typedefs) : TypeOK(p, p.typedefs[i].t)
  /\ \A i \in Idx(p.scopes) : \A o \in Idx(p.scopes[i].ops) : TypeOK(p, p.scopes[i].ops[o].t)
  /\ \A i \in Idx(p.services) : \A m \in Idx(p.services[i].methods) :
       LET mm == p.services[i].methods[m] IN
       /\ mm.oneway => Len(mm.ret) = 0 /\ Len(mm.throws) = 0
       /\ \A a \in Idx(mm.args) : TypeOK(p, mm.args[a].t)
       /\ \A a \in Idx(mm.throws) : TypeOK(p, mm.throws[a].t)
Init == new = Base /\ depth = 0 /\ last = "none"
Next == depth < MaxDepth /\ depth' = depth + 1 /\ Edits(new) /\ WellFormed(new') /\ (OnlyCompatible => ~Breaking(Base, new'))
Spec == Init /\ [][Next]_vars
Emit == PrintT("CASE " \o ToJson([breaking |-> Breaking(Base, new), last |-> last, depth |-> depth, prog |-> new]))
Count == TRUE
=============================================================================
