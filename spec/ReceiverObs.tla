----------------------------- MODULE ReceiverObs -----------------------------
(* Observations recorded from the real receiving entry points, checked against  *)
(* the Receiver machine: each observation must be explained by a step of a      *)
(* receiver of its kind followed by the follow-up Good step.                    *)
EXTENDS Receiver
\* Observations recorded from the real entry points, one per line:
\*   [ep, kind, specok, obs \in {"ok","rejected","panic","hang","oom"},
\*    follow \in {"served","not-served","closed-cause","closed-nil","n/a"}, n, first]
Obs == ndJsonDeserialize("recv_obs.ndjson")
\* an observation is explained iff some Next step (plus the follow-up Good step) of a receiver of that kind matches it
Explained(o) ==
  /\ o.obs \in {"ok", "rejected"}
  /\ \/ o.follow \in {"served", "n/a"}                                   \* BadRejected (or Good), then Good
     \/ o.kind = "connection" /\ o.follow = "closed-cause"              \* BadCloses
VARIABLE k
TInit == Init /\ k = 1
TNext == k <= Len(Obs) /\ k' = k + 1 /\ UNCHANGED vars
TSpec == TInit /\ [][TNext]_<<vars, k>>
\* never false: every unexplained observation is reported, the check script turns the list into verdicts
AllExplained == k <= Len(Obs) => (Explained(Obs[k]) \/ PrintT("UNEXPLAINED " \o ToString(k)))
=============================================================================
