--------------------------------- MODULE Rpc ---------------------------------
(***************************************************************************)
(* One call through generated client and server code (C03): the client     *)
(* method encodes the arguments, the transport carries the request, the    *)
(* generated processor function decodes them, invokes the handler once and *)
(* encodes its outcome (Server!ReplyOf), the client decodes the reply and  *)
(* maps it to what the caller observes.  Methods of the verif IDL:         *)
(* ping / note are inherited from service Base through `extends`.          *)
(***************************************************************************)
EXTENDS Integers, Sequences, FiniteSets, TLC
Methods == {"ping", "note", "get", "put", "add", "names", "echo", "fire"}
Oneway(m) == m \in {"note", "fire"}
Inherited(m) == m \in {"ping", "note"}
Void(m) == m \in {"put", "note", "fire"}
\* declared exceptions per method, in declaration order
Throws(m) == CASE m = "get" -> <<"Oops", "Denied">> [] m = "put" -> <<"Denied">> [] OTHER -> <<>>
Outcomes == {"return", "declared", "declared2", "undeclared", "appex"}
\* outcomes a handler of m can produce
Possible(m, o) == CASE o = "declared"  -> Len(Throws(m)) >= 1
                    [] o = "declared2" -> Len(Throws(m)) >= 2
                    [] OTHER -> TRUE
\* the request kind of Server.tla this call is
Kind(m, o) == IF Oneway(m) THEN (IF o = "return" THEN "oneway" ELSE "onewayfail")
              ELSE CASE o = "return" -> "ok" [] o \in {"declared", "declared2"} -> "declared"
                     [] o = "undeclared" -> "undeclared" [] OTHER -> "appex"
\* what the caller observes
Observes(m, o) ==
  IF Oneway(m) THEN "nil"                                   \* the client does not wait for a reply
  ELSE CASE o = "return"     -> IF Void(m) THEN "nil" ELSE "value"
         [] o = "declared"   -> Throws(m)[1]
         [] o = "declared2"  -> Throws(m)[2]
         [] o = "undeclared" -> "TApplicationException:INTERNAL_ERROR"
         [] OTHER            -> "TApplicationException:handler-type"
\* reply frames the server produces for the call
ReplyFrames(m, o) == IF Oneway(m) /\ o = "return" THEN 0 ELSE 1
\* ---- a client making a sequence of calls: every call is independent of the earlier ones ----
CONSTANT MaxCalls
VARIABLES calls,      \* sequence of [m, o] made so far
          handler,    \* handler invocations: sequence of method names
          seen        \* what the caller observed for each call
vars == <<calls, handler, seen>>
Init == calls = <<>> /\ handler = <<>> /\ seen = <<>>
Call(m, o) == /\ Len(calls) < MaxCalls /\ Possible(m, o)
              /\ calls' = Append(calls, [m |-> m, o |-> o, fault |-> "none"])
              /\ handler' = Append(handler, m)                       \* exactly one invocation
              /\ seen' = Append(seen, Observes(m, o))
\* the environment drops the connection after the server has processed the request and before any byte of the response is
\* on the wire (HTTP: the carrier of a request is its own connection): the request did arrive, so the handler ran - once; the
\* caller observes a transport error, whatever the outcome was, and nobody sends the request a second time
Faults == {"none", "drop-after-handler", "reply-over-limit"}
ObservesF(m, o, f) == IF f = "none" THEN Observes(m, o) ELSE "transport-error"
CallDropped(m, o) == /\ Len(calls) < MaxCalls /\ Possible(m, o)
                     /\ calls' = Append(calls, [m |-> m, o |-> o, fault |-> "drop-after-handler"])
                     /\ handler' = Append(handler, m)                \* still exactly one invocation
                     /\ seen' = Append(seen, "transport-error")
\* the caller's transport accepts only replies up to a size the reply exceeds (HTTP: WithResponseSizeLimit, answered 413): the
\* handler ran once, the caller observes a transport error (RESPONSE_TOO_LARGE), and - like every call - it leaves nothing
\* behind for the calls that follow
CallOverLimit(m, o) == /\ Len(calls) < MaxCalls /\ Possible(m, o) /\ ~Oneway(m)
                       /\ calls' = Append(calls, [m |-> m, o |-> o, fault |-> "reply-over-limit"])
                       /\ handler' = Append(handler, m)
                       /\ seen' = Append(seen, "transport-error")
Next == \E m \in Methods, o \in Outcomes : Call(m, o) \/ CallDropped(m, o) \/ CallOverLimit(m, o)
Spec == Init /\ [][Next]_vars
OncePerCall == Len(handler) = Len(calls) /\ \A i \in 1..Len(calls) : handler[i] = calls[i].m
Faithful == \A i \in 1..Len(calls) : seen[i] = ObservesF(calls[i].m, calls[i].o, calls[i].fault)
InheritedSame == \A i \in 1..Len(calls) : Inherited(calls[i].m) => seen[i] = ObservesF(calls[i].m, calls[i].o, calls[i].fault)
=============================================================================
