---------------------------- MODULE ClientMuxGen ----------------------------
(* Behaviour generator for ClientMux: the same actions with a history        *)
(* variable; TLC -simulate prints one JSON behaviour per random walk, the    *)
(* Go driver replays it through the real transport with the verif gates.    *)
EXTENDS ClientMux, Json
CONSTANT Depth
VARIABLE hist
gvars == <<vars, hist>>
Rec(a, c) == [a |-> a, c |-> c, reg |-> Cardinality(reg')]
H(a, c) == hist' = Append(hist, Rec(a, c))
GInit == Init /\ hist = <<>>
GNext == \/ \E c \in Callers :
             \/ Register(c) /\ H("Register", c)
             \/ Collide(c) /\ H("Collide", c)
             \/ SendOk(c) /\ H("SendOk", c)
             \/ SendFail(c) /\ H("SendFail", c)
             \/ SendStall(c) /\ H("SendStall", c)
             \/ Expire(c) /\ H("Expire", c)
             \/ Recv(c) /\ H("Recv", c)
             \/ RecvErr(c) /\ H("RecvErr", c)
             \/ Timeout(c) /\ H("Timeout", c)
             \/ Unregister(c) /\ H("Unregister", c)
         \/ \E o \in Ops : \/ Lookup(o) /\ H(IF o \in reg THEN "LookupHit" ELSE "LookupMiss", o)
                           \/ Status503(o) /\ H(IF o \in reg THEN "S503Hit" ELSE "S503Miss", o)
         \/ DeliverPut /\ H("DeliverPut", rd[2])
         \/ DeliverDrop /\ H("DeliverDrop", rd[2])
GSpec == GInit /\ [][GNext]_gvars
AllDone == (\A c \in Callers : cpc[c] = "done") /\ rd = <<"idle">>
\* printed once per behaviour: at the depth bound or when everything finished
Emit == (TLCGet("level") >= Depth \/ AllDone) => PrintT("B " \o ToJson(hist))
\* keep walks from wandering after the end
Bound == TLCGet("level") <= Depth /\ ~AllDone
=============================================================================
