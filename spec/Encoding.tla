------------------------------- MODULE Encoding -------------------------------
(***************************************************************************)
(* C02: what the generated Go types must put on the wire, and take off it, *)
(* for a given IDL program.  A program is a value of the shape IDL.tla     *)
(* emits (typedefs, enums with their Thrift numbering, structs / unions /  *)
(* exceptions, services); this module is a library of operators over it:   *)
(*   Resolve / WT    typedef chains, includes and enums down to wire types *)
(*   Encode          abstract value  -> the wire tree a schema-less reader *)
(*                   must see (required and default fields always present, *)
(*                   optional fields iff set, a union exactly one field)   *)
(*   Decode          wire tree -> the value the generated reader must      *)
(*                   produce (unknown fields and fields of the wrong wire  *)
(*                   type skipped, absent fields at their default / zero / *)
(*                   unset) or Reject (a required field is missing)        *)
(* Args and result structs of service methods are synthesized the way      *)
(* compiler/generator/base.go does.  EncodingCases enumerates values and   *)
(* perturbed encodings and prints the expected outcomes; the harness runs  *)
(* the generated code of the very same program against them.               *)
(***************************************************************************)
EXTENDS Integers, Sequences, FiniteSets, TLC, SequencesExt
Idx(s) == 1..Len(s)
B(n) == [k |-> "base", n |-> n]
R(n) == [k |-> "ref", n |-> n]
\* wire type codes (Thrift TType)
T_BOOL == 2   T_BYTE == 3   T_DOUBLE == 4   T_I16 == 6   T_I32 == 8   T_I64 == 10
T_STRING == 11   T_STRUCT == 12   T_MAP == 13   T_SET == 14   T_LIST == 15
NoDflt == [k |-> "none"]
Unset == [k |-> "unset"]
\* the fixed second file of a two-file program (inc.frugal)
IncStructs == <<[kind |-> "struct", name |-> "inc.Ext", fields |-> <<[id |-> 1, req |-> "default", t |-> B("i32"), name |-> "a", dflt |-> NoDflt]>>]>>
\* the fixed files of a tree of includes (IDL!AddTree): both L and Rt refer to "common.Item" / "common.Num", which are different
\* declarations - the ones of a/common.frugal for left.frugal, the ones of b/common.frugal for right.frugal
Fd(id, t, n) == [id |-> id, req |-> "default", t |-> t, name |-> n, dflt |-> NoDflt]
TreeStructs == <<[kind |-> "struct", name |-> "left.L", fields |-> <<Fd(1, R("a/common.Item"), "it"), Fd(2, B("i64"), "n"), Fd(3, [k |-> "list", v |-> R("a/common.Item")], "its")>>],
                 [kind |-> "struct", name |-> "right.Rt", fields |-> <<Fd(1, R("b/common.Item"), "it"), Fd(2, B("i32"), "n")>>],
                 [kind |-> "struct", name |-> "a/common.Item", fields |-> <<Fd(1, B("i64"), "id"), Fd(2, B("double"), "w")>>],
                 [kind |-> "struct", name |-> "b/common.Item", fields |-> <<Fd(1, B("i32"), "id"), Fd(2, B("i16"), "w")>>],
                 [kind |-> "exception", name |-> "a/common.Oops", fields |-> <<Fd(1, B("string"), "m")>>]>>
\* typedefs of the fixed files, by the name the main file uses
FixedTypedefs == <<[name |-> "inc.Thing", t |-> B("i64")], [name |-> "inc.ExtAlias", t |-> R("inc.ExtE")], [name |-> "inc.ExtS", t |-> R("inc.Ext")],
                   [name |-> "inc.ExtL", t |-> [k |-> "list", v |-> R("inc.ExtAlias")]]>>
IncEnums == <<[name |-> "inc.ExtE", numbered |-> <<[name |-> "P", value |-> 0], [name |-> "Q", value |-> 1]>>]>>

\* ---- args / result structs of the service methods (compiler/generator/base.go) ----
\* (an 'optional' written on an argument is turned into default requiredness)
ArgsOf(sv, m) == [kind |-> "struct", name |-> sv.name \o "." \o m.name \o ".args",
                  fields |-> [i \in Idx(m.args) |-> IF m.args[i].req = "optional" THEN [m.args[i] EXCEPT !.req = "default"] ELSE m.args[i]]]
ResultOf(sv, m) ==
  [kind |-> "result", name |-> sv.name \o "." \o m.name \o ".result",
   fields |-> (IF m.ret = <<>> THEN <<>> ELSE <<[id |-> 0, req |-> "optional", t |-> m.ret[1], name |-> "success", dflt |-> NoDflt]>>)
              \o [i \in Idx(m.throws) |-> [m.throws[i] EXCEPT !.req = "optional"]]]
Synth(P) == LET per(sv) == LET ms == sv.methods IN
                           FoldLeft(LAMBDA acc, m : acc \o <<ArgsOf(sv, m)>> \o (IF m.oneway THEN <<>> ELSE <<ResultOf(sv, m)>>), <<>>, ms)
            IN FoldLeft(LAMBDA acc, sv : acc \o per(sv), <<>>, P.services)
\* members of a union are optional whatever requiredness is written on them
AsParsed(st) == IF st.kind = "union" THEN [st EXCEPT !.fields = [i \in Idx(st.fields) |-> [st.fields[i] EXCEPT !.req = "optional"]]] ELSE st
AllStructs(P) == [i \in Idx(P.structs) |-> AsParsed(P.structs[i])] \o IncStructs \o TreeStructs \o Synth(P)
AllEnums(P) == P.enums \o IncEnums
StructNamed(P, n) == LET ss == AllStructs(P) IN ss[CHOOSE i \in Idx(ss) : ss[i].name = n]
IsStructName(P, n) == \E i \in Idx(AllStructs(P)) : AllStructs(P)[i].name = n
IsEnumName(P, n) == \E i \in Idx(AllEnums(P)) : AllEnums(P)[i].name = n
EnumNamed(P, n) == LET es == AllEnums(P) IN es[CHOOSE i \in Idx(es) : es[i].name = n]

\* ---- resolution of typedef chains ----
RECURSIVE Resolve(_, _)
Resolve(P, t) ==
  LET tds == P.typedefs \o FixedTypedefs IN
  IF t.k = "ref" /\ \E i \in Idx(tds) : tds[i].name = t.n
  THEN Resolve(P, tds[CHOOSE i \in Idx(tds) : tds[i].name = t.n].t)
  ELSE t
Kind(P, t) == LET u == Resolve(P, t) IN
  CASE u.k = "base" -> (IF u.n = "i8" THEN "byte" ELSE u.n)      \* i8 is another spelling of byte
    [] u.k \in {"list", "set", "map"} -> u.k
    [] u.k = "ref" /\ IsEnumName(P, u.n) -> "enum"
    [] OTHER -> "struct"
WT(P, t) == LET kd == Kind(P, t) IN
  CASE kd = "bool" -> T_BOOL [] kd = "byte" -> T_BYTE [] kd = "i16" -> T_I16 [] kd = "i32" -> T_I32 [] kd = "i64" -> T_I64
    [] kd = "double" -> T_DOUBLE [] kd \in {"string", "binary"} -> T_STRING [] kd = "enum" -> T_I32
    [] kd = "struct" -> T_STRUCT [] kd = "list" -> T_LIST [] kd = "set" -> T_SET [] kd = "map" -> T_MAP

\* ---- abstract values ----
\* scalars [k: int|bool|str|double]; [k: list, items] for lists and sets; [k: map, pairs]; [k: struct, name, fields: <<[id, v]>>]
\* where v = Unset for a field that is not set.  Zero(t) is Go's zero value as the wire shows it.
IntV(i) == [k |-> "int", i |-> i]
Zero(P, t) == LET kd == Kind(P, t) IN
  CASE kd \in {"byte", "i16", "i32", "i64", "enum"} -> IntV(0)
    [] kd = "bool" -> [k |-> "bool", b |-> FALSE]
    [] kd = "double" -> [k |-> "double", s |-> "0"]
    [] kd \in {"string", "binary"} -> [k |-> "str", s |-> ""]
    [] kd \in {"list", "set"} -> [k |-> "list", items |-> <<>>]
    [] kd = "map" -> [k |-> "map", pairs |-> <<>>]
    [] OTHER -> Unset
\* the value of a field nobody assigned: its default literal, else (required / default requiredness) the zero value, else unset
\* a default written Enum.VALUE stands for the number Thrift gave that value
Lit(P, d) == IF d.k = "id" THEN LET e == EnumNamed(P, d.e) IN IntV(e.numbered[CHOOSE i \in Idx(e.numbered) : e.numbered[i].name = d.v].value) ELSE d
DfltOf(P, f) == IF f.dflt = NoDflt THEN NoDflt ELSE Lit(P, f.dflt)
Unassigned(P, f) == IF f.dflt # NoDflt THEN DfltOf(P, f) ELSE IF f.req = "optional" THEN Unset ELSE Zero(P, f.t)
\* a union has no defaults: a member is either the one that is set or absent
UnassignedIn(P, s, f) == IF s.kind = "union" THEN Unset ELSE Unassigned(P, f)

\* ---- Encode: value -> wire tree ----
RECURSIVE EncV(_, _, _), EncStruct(_, _, _)
EncV(P, t, v) == LET u == Resolve(P, t) kd == Kind(P, t) IN
  CASE kd \in {"list", "set"} -> [wt |-> WT(P, t), et |-> WT(P, u.v), items |-> [i \in Idx(v.items) |-> EncV(P, u.v, v.items[i])]]
    [] kd = "map" -> [wt |-> T_MAP, kt |-> WT(P, u.key), vt |-> WT(P, u.v),
                      pairs |-> [i \in Idx(v.pairs) |-> <<EncV(P, u.key, v.pairs[i][1]), EncV(P, u.v, v.pairs[i][2])>>]]
    [] kd = "struct" -> EncStruct(P, u.n, v)
    \* string and binary share a wire type; the tree keeps them apart (the JSON protocol writes binary as base64)
    [] kd = "binary" -> [wt |-> T_STRING, v |-> [k |-> "bin", s |-> v.s]]
    [] OTHER -> [wt |-> WT(P, t), v |-> v]
RawFieldValue(v, id) == IF \E i \in Idx(v.fields) : v.fields[i].id = id THEN v.fields[CHOOSE i \in Idx(v.fields) : v.fields[i].id = id].v ELSE Unset
\* (a field Decode reported as "not set, shown as its default" is not set)
FieldValue(v, id) == IF RawFieldValue(v, id).k = "dflt" THEN Unset ELSE RawFieldValue(v, id)
EncStruct(P, n, v) == LET s == StructNamed(P, n)
                          eff(f) == IF FieldValue(v, f.id) # Unset THEN FieldValue(v, f.id) ELSE UnassignedIn(P, s, f)
                          \* an optional field is on the wire iff it is set; an optional scalar whose value equals its default counts
                          \* as not set in Go (IsSet compares with the default; containers and binary are nil when not set)
                          present(f) == IF f.req = "optional"
                                        THEN /\ FieldValue(v, f.id) # Unset
                                             /\ ~(s.kind # "union" /\ f.dflt # NoDflt /\ FieldValue(v, f.id) = DfltOf(P, f)
                                                    /\ Kind(P, f.t) \notin {"list", "set", "map", "binary", "struct"})
                                        ELSE eff(f) # Unset
                          fs == SelectSeq(s.fields, present) IN
  [wt |-> T_STRUCT, fields |-> [i \in Idx(fs) |-> [id |-> fs[i].id, f |-> EncV(P, fs[i].t, eff(fs[i]))]]]
SetCount(v) == Cardinality({i \in Idx(v.fields) : v.fields[i].v # Unset})

\* ---- Decode: wire tree -> value the reader must produce, or Reject ----
Reject == [k |-> "reject"]
RECURSIVE DecV(_, _, _), DecStruct(_, _, _)
DecV(P, t, w) == LET u == Resolve(P, t) kd == Kind(P, t) IN
  CASE kd \in {"list", "set"} ->
         LET items == [i \in Idx(w.items) |-> DecV(P, u.v, w.items[i])] IN
         IF \E i \in Idx(items) : items[i] = Reject THEN Reject ELSE [k |-> "list", items |-> items]
    [] kd = "map" ->
         LET pairs == [i \in Idx(w.pairs) |-> <<DecV(P, u.key, w.pairs[i][1]), DecV(P, u.v, w.pairs[i][2])>>] IN
         IF \E i \in Idx(pairs) : pairs[i][1] = Reject \/ pairs[i][2] = Reject THEN Reject ELSE [k |-> "map", pairs |-> pairs]
    [] kd = "struct" -> DecStruct(P, u.n, w)
    [] OTHER -> w.v
DecStruct(P, n, w) == LET s == StructNamed(P, n)
                          \* the last field on the wire with this id and the declared wire type wins; others are skipped
                          hits(f) == {i \in Idx(w.fields) : w.fields[i].id = f.id /\ w.fields[i].f.wt = WT(P, f.t)}
                          \* an optional field with a default that is absent stays not set; Go shows that either as nil (containers)
                          \* or as the default value itself (scalars, where not-set means equal to the default): "dflt" allows both
                          val(f) == IF hits(f) = {}
                                    THEN IF f.req = "optional" /\ f.dflt # NoDflt THEN [k |-> "dflt", v |-> DfltOf(P, f)]
                                         ELSE UnassignedIn(P, s, f)
                                    ELSE DecV(P, f.t, w.fields[CHOOSE i \in hits(f) : \A j \in hits(f) : j <= i].f)
                          missing == \/ \E i \in Idx(s.fields) : s.fields[i].req = "required" /\ hits(s.fields[i]) = {}
                                     \* a union on the wire carries exactly one of its members
                                     \/ s.kind = "union" /\ Cardinality({i \in Idx(s.fields) : hits(s.fields[i]) # {}}) # 1
                          fields == [i \in Idx(s.fields) |-> [id |-> s.fields[i].id, v |-> val(s.fields[i])]] IN
  IF missing \/ \E i \in Idx(fields) : fields[i].v = Reject THEN Reject ELSE [k |-> "struct", name |-> n, fields |-> fields]
=============================================================================
