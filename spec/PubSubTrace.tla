----------------------------- MODULE PubSubTrace -----------------------------
(* Trace validation: publishes, handler invocations and the return of          *)
(* Unsubscribe recorded by the driver are checked to be a behaviour of PubSub; *)
(* the hand-offs inside the subscriber are silent steps.  Runs are             *)
(* concatenated with "reset" events.                                           *)
EXTENDS PubSub, Json, TLCExt
TraceLog == ndJsonDeserialize("pubsub_trace.ndjson")
VARIABLE l
tvars == <<vars, l>>
TInit == Init /\ l = 1
Ev(e) == l <= Len(TraceLog) /\ TraceLog[l].ev = e
Adv == l' = l + 1
TPublish == Ev("pub") /\ TraceLog[l].id = nextId /\ Publish(TraceLog[l].kind) /\ Adv
\* the handler started for message id: some worker holding it runs the callback
TDeliver == Ev("deliver") /\ (\E w \in Workers : wk[w] = TraceLog[l].id /\ WHandle(w)) /\ InSeq(delivered', TraceLog[l].id) /\ Adv
TUnsub == Ev("unsub") /\ Unsub /\ Adv
\* end of a run: the driver waited for quiescence; every ok message published while subscribed was delivered
TReset == /\ Ev("reset")
          /\ \A m \in 1..(nextId - 1) : (kind[m] = "ok" /\ m \notin late /\ ~unsubRet) => InSeq(delivered, m)
          /\ nextId' = 1 /\ kind' = [i \in Ids |-> "ok"] /\ interest' = TRUE /\ pending' = <<>> /\ cb' = 0
          /\ workC' = <<>> /\ quit' = FALSE /\ wk' = [w \in Workers |-> 0] /\ delivered' = <<>> /\ acked' = {}
          /\ unsubRet' = FALSE /\ late' = {} /\ Adv
\* silent: hand-offs and the handling of messages that never reach the handler
TSilent == /\ \/ CbTake \/ CbPush
              \/ \E w \in Workers : WTake(w) \/ WQuit(w) \/ (wk[w] > 0 /\ kind[wk[w]] # "ok" /\ WHandle(w))
           /\ UNCHANGED l
TNext == TPublish \/ TDeliver \/ TUnsub \/ TReset \/ TSilent
TSpec == TInit /\ [][TNext]_tvars
HighWater == TLCSet(1, IF l > TLCGet(1) THEN l ELSE TLCGet(1))
Accepted == IF TLCGet(1) = Len(TraceLog) + 1 THEN TRUE ELSE PrintT("REJECTED-AT " \o ToString(TLCGet(1))) /\ FALSE
ASSUME TLCSet(1, 0)
=============================================================================
