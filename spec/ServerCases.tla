----------------------------- MODULE ServerCases -----------------------------
(* C14 case enumeration: every sequence of request kinds up to MaxLen on one   *)
(* connection, with the reply list Server's Process forces for it.             *)
EXTENDS Integers, Sequences, FiniteSets, TLC, SequencesExt, Json
CONSTANT MaxLen
S == INSTANCE Server WITH Conns <- {1}, MaxReq <- MaxLen, ServerKind <- "simple",
                          inq <- 0, out <- 0, alive <- 0, calls <- 0, nextId <- 0
Seqs == UNION {[1..n -> S!Kinds] : n \in 1..MaxLen}
Reqs(s) == [i \in 1..Len(s) |-> [id |-> i, kind |-> s[i]]]
Case(s) == [kinds |-> s, replies |-> S!RepliesFor(Reqs(s)),
            calls |-> SelectSeq([i \in 1..Len(s) |-> IF S!Invokes(s[i]) THEN i ELSE 0], LAMBDA x : x > 0)]
ASSUME JsonSerialize("server_cases.json", SetToSeq({Case(s) : s \in Seqs}))
ASSUME PrintT("CASES " \o ToString(Cardinality(Seqs)))
VARIABLE x
Spec == x = 0 /\ [][FALSE]_x
=============================================================================
