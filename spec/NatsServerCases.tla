--------------------------- MODULE NatsServerCases ---------------------------
(* C20 configurations: worker counts x queue lengths x burst sizes x position  *)
(* of Stop in the request stream x handler duration pattern x late requests.   *)
EXTENDS Integers, Sequences, FiniteSets, TLC, SequencesExt, Json
CONSTANTS MaxWorkers, MaxQLen, MaxBurst
\* "beyond-watermark": the server is built with a 10 ms high watermark (the threshold of its "request waited too long" warning)
\* and every handler that is running when Stop is called stays in the handler for several watermarks
Holds == {"fast", "hold-until-stop", "slow", "beyond-watermark"}
Cases == {[workers |-> w, qlen |-> q, burst |-> b, stop_after |-> s, hold |-> h, late |-> 2] :
            w \in 1..MaxWorkers, q \in 0..MaxQLen, b \in 0..MaxBurst, s \in 0..MaxBurst, h \in Holds}
Valid(c) == c.stop_after <= c.burst /\ (c.hold = "beyond-watermark" => c.stop_after >= 1)
ASSUME JsonSerialize("natssrv_cases.json", SetToSeq({c \in Cases : Valid(c)}))
ASSUME PrintT("CASES " \o ToString(Cardinality({c \in Cases : Valid(c)})))
VARIABLE x
Spec == x = 0 /\ [][FALSE]_x
=============================================================================
