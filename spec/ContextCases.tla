----------------------------- MODULE ContextCases -----------------------------
(* C09 case enumeration: what the caller puts on its FContext (user request    *)
(* headers, correlation id, timeout, response headers already present) and     *)
(* what the handler sets; expected views follow Context!ServerRead (the        *)
(* handler sees the caller's user headers, cid and timeout) and                *)
(* Context!ClientMerge (the caller's response headers become its own merged    *)
(* with the handler's, the handler's value winning).                           *)
EXTENDS Integers, Sequences, FiniteSets, TLC, SequencesExt, Json
CONSTANTS Names, Vals, MaxEntries
Maps == UNION {[S -> Vals] : S \in {T \in SUBSET Names : Cardinality(T) <= MaxEntries}}
Merge(own, theirs) == [n \in DOMAIN own \cup DOMAIN theirs |-> IF n \in DOMAIN theirs THEN theirs[n] ELSE own[n]]
Cids == {"cid-1", ""}
Timeouts == {250, 5000}
\* string-keyed records for JSON
Cases == {[req |-> r, handler_sets |-> h, caller_had |-> o, cid |-> c, timeout |-> t,
           handler_sees |-> r, caller_gets |-> Merge(o, h)] :
             r \in Maps, h \in Maps, o \in {m \in Maps : Cardinality(DOMAIN m) <= 1}, c \in Cids, t \in Timeouts}
ASSUME JsonSerialize("context_cases.json", SetToSeq(Cases))
ASSUME PrintT("CASES " \o ToString(Cardinality(Cases)))
VARIABLE x
Spec == x = 0 /\ [][FALSE]_x
=============================================================================
