--------------------------- MODULE NatsServerTrace ---------------------------
(* Trace validation for NatsServer: the driver records publishes (after the    *)
(* publisher's flush), handler start / end (from the stub processor), the call *)
(* and return of Stop, the return of Serve and the replies an observer saw;    *)
(* everything inside nats.go and the hand-offs are silent steps.               *)
EXTENDS NatsServer, Json, TLCExt
TraceLog == ndJsonDeserialize("natssrv_trace.ndjson")
VARIABLES l, seen
tvars == <<vars, l, seen>>
TInit == Init /\ l = 1 /\ seen = {}
Ev(e) == l <= Len(TraceLog) /\ TraceLog[l].ev = e
Id == TraceLog[l].id
Adv == l' = l + 1
TPub == Ev("pub") /\ Id = next /\ Publish /\ UNCHANGED seen /\ Adv
TStart == Ev("start") /\ (\E w \in Workers : wk[w] = Id /\ WProcess(w)) /\ UNCHANGED seen /\ Adv
TEnd == Ev("end") /\ (\E w \in Workers : wk[w] = -Id /\ WReply(w)) /\ UNCHANGED seen /\ Adv
TStopCall == Ev("stopcall") /\ StopCall /\ UNCHANGED seen /\ Adv
\* the goroutine that called Stop logs its return some time after the hand-off on `done`: the hand-off itself is silent
TStopRet == Ev("stopret") /\ stop = "returned" /\ UNCHANGED <<vars, seen>> /\ Adv
TServeRet == Ev("serveret") /\ ServeRet /\ UNCHANGED seen /\ Adv
\* the observer saw the reply of request Id (exactly once)
TSeen == Ev("seen") /\ Id \in replied /\ Id \notin seen /\ seen' = seen \cup {Id} /\ UNCHANGED vars /\ Adv
\* end of a run: Serve returned and the observer's connection was flushed: every accepted request was answered
TReset == /\ Ev("reset") /\ serve = "returned" /\ stop = "returned" /\ accepted \subseteq seen
          /\ next' = 1 /\ interest' = TRUE /\ pending' = <<>> /\ cb' = 0 /\ subLive' = TRUE
          /\ workC' = <<>> /\ workClosed' = FALSE /\ wk' = [w \in Workers |-> 0]
          /\ serve' = "starting" /\ stop' = "idle" /\ barrierDone' = FALSE
          /\ accepted' = {} /\ lateSet' = {} /\ processed' = [m \in Msgs |-> 0] /\ replied' = {} /\ panic' = FALSE
          /\ seen' = {} /\ Adv
TSilent == /\ \/ ServeReady \/ CbTake \/ CbPush \/ Drain \/ SubGone \/ Flush \/ Barrier \/ DoneSend \/ CloseQ
              \/ \E w \in Workers : Handoff(w) \/ WTake(w) \/ WExit(w)
           /\ UNCHANGED <<l, seen>>
TNext == TPub \/ TStart \/ TEnd \/ TStopCall \/ TStopRet \/ TServeRet \/ TSeen \/ TReset \/ TSilent
TSpec == TInit /\ [][TNext]_tvars
HighWater == TLCSet(1, IF l > TLCGet(1) THEN l ELSE TLCGet(1))
Accepted == IF TLCGet(1) = Len(TraceLog) + 1 THEN TRUE ELSE PrintT("REJECTED-AT " \o ToString(TLCGet(1))) /\ FALSE
ASSUME TLCSet(1, 0)
=============================================================================
