------------------------------- MODULE WireRecs -------------------------------
(* One-step traces recorded from the real codecs: for every record the bytes  *)
(* the Go writer produced must parse (by the specification's parser) to       *)
(* exactly the headers written, be laid out as documented and leave the       *)
(* payload untouched; every reader's result must equal the written map.       *)
EXTENDS Wire, Json
Recs == ndJsonDeserialize("wire_recs.ndjson")
AsMap(ps) == ToMap(ps)
Same(ps, m) == Len(ps) >= 0 /\ ToMap(ps) = m
RecOK(r) ==
  LET m == ToMap(r.hdr)
      p == Parse(r.bytes \o r.payload) IN
  /\ p.ok /\ p.hdr = m /\ p.rest = r.payload               \* documented layout, payload untouched
  /\ r.bytes[1] = 0 /\ I32(r.bytes, 2) = Len(r.bytes) - 5
  /\ Len(r.bytes) = 5 + Sum([n \in 1..Len(r.hdr) |-> 0]) + Sum([i \in 1..Len(r.uniq) |-> 8 + Len(r.uniq[i][1]) + Len(r.uniq[i][2])])
  /\ ToMap(r.uniq) = m
  /\ \A k \in DOMAIN r.readers : ToMap(r.readers[k].hdr) = m /\ r.readers[k].rest = r.payload /\ r.readers[k].err = ""
  /\ \A k \in DOMAIN r.writers :                          \* other writers (response header writer, Python codec)
        LET q == Parse(r.writers[k] \o r.payload) IN q.ok /\ q.hdr = m /\ q.rest = r.payload /\ Len(r.writers[k]) = Len(r.bytes)
  /\ (r.added # <<>> =>                                   \* addHeadersToFrame(frame, extra)
        LET want == AddHeaders(Frame(r.bytes \o r.payload), ToMap(r.extra))
            got == ParseFrame(r.added) IN
        want.ok /\ got.ok /\ got.hdr = want.hdr /\ got.rest = r.payload)
VARIABLE k
Init == k = 1
Next == k <= Len(Recs) /\ k' = k + 1
Spec == Init /\ [][Next]_k
\* never false: every bad record is reported, the check script turns the list into verdicts
AllOK == k <= Len(Recs) => (RecOK(Recs[k]) \/ PrintT("BAD-RECORD " \o ToString(Recs[k].id)))
=============================================================================
