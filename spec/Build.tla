-------------------------------- MODULE Build --------------------------------
(***************************************************************************)
(* C19: code generation is a function of the IDL content, the options and  *)
(* the compiler version - nothing else.  The state is the circumstances of *)
(* one compiler invocation; every action changes exactly one circumstance  *)
(* that must not matter (where the sources live, the working directory,    *)
(* how the file argument is spelled, where the output goes and whether     *)
(* something was generated there before, the order in which the options    *)
(* are written, the process environment, how often it has been run).       *)
(* `out` is what the invocation produced: the abstract compiler is the     *)
(* constant function Gen, so the invariant Functional says that every      *)
(* reachable circumstance yields Gen[prog, opts] - the real compiler is    *)
(* run in every circumstance TLC reaches (exhaustively: the space is the   *)
(* product of the dimensions) and the digests of all emitted files are     *)
(* compared with those of the initial circumstance.                        *)
(***************************************************************************)
EXTENDS Integers, Sequences, TLC, Json
CONSTANTS Roots,      \* absolute locations of a copy of the sources
          Cwds,       \* "src": the directory of the file, "parent": one above, "far": unrelated; the latter two hold unrelated files
                      \* named like the program's includes (includes are relative to the including file, never to the working directory)
          Spells,     \* "rel" / "dot" (./ and ../ detours) / "abs": how the file argument is written
          Outs,       \* "default" (no -out), "rel", "abs", "nested", "slash" (trailing slash)
          Pres,       \* "fresh": empty output directory, "again": generated there once before, "stale": the directory holds the
                      \* output of a sibling generation (another flavour / option set of the same language)
          Orders,     \* "asc" / "desc": order of the comma separated generator options
          Envs,       \* "plain" / "other": HOME, TZ, LANG, GOMAXPROCS, umask
          MaxRep      \* repetitions of one and the same invocation
VARIABLES c, out,
          earlier     \* what the process that runs this invocation compiled before it: the CLI compiles its file arguments one after
                      \* the other in one process and embedding programs call compiler.Compile repeatedly; <<>> = a process of its own
vars == <<c, out, earlier>>
Targets == {"go", "java", "dart", "py", "json", "html"}
Gen == "Gen[prog, opts]"       \* the abstract compiler: one value, whatever the circumstances
Cfg == [root : Roots, cwd : Cwds, spell : Spells, o : Outs, pre : Pres, order : Orders, env : Envs, rep : 1..MaxRep]
\* from an unrelated working directory there is no short detour to spell
Sensible(x) == x.cwd = "far" => x.spell # "dot"
Init == /\ c \in {x \in Cfg : x.rep = 1 /\ x.root = "r1" /\ x.cwd = "src" /\ x.spell = "rel" /\ x.o = "rel" /\ x.pre = "fresh" /\ x.order = "asc" /\ x.env = "plain"}
        /\ out = Gen /\ earlier = <<>>
Compile(x) == Sensible(x) /\ c' = x /\ out' = Gen /\ UNCHANGED earlier
\* the same sources were compiled for target t earlier in this process: no trace of that may reach the output (the parse tree a
\* generator edited, caches keyed by path, package-level state).  The drivers run, in the initial circumstance, every target
\* after every other one (all targets forwards, then backwards, and java first) in one process.
SameProcess == Len(earlier) < 2 /\ \E t \in Targets : earlier' = Append(earlier, t) /\ out' = Gen /\ UNCHANGED c
MoveSources == \E r \in Roots : Compile([c EXCEPT !.root = r])
ChangeDir == \E d \in Cwds : Compile([c EXCEPT !.cwd = d])
Respell == \E s \in Spells : Compile([c EXCEPT !.spell = s])
Redirect == \E o \in Outs : Compile([c EXCEPT !.o = o])
Regenerate == \E p \in Pres : Compile([c EXCEPT !.pre = p])
Reorder == \E o \in Orders : Compile([c EXCEPT !.order = o])
ChangeEnv == \E e \in Envs : Compile([c EXCEPT !.env = e])
Repeat == c.rep < MaxRep /\ Compile([c EXCEPT !.rep = @ + 1])
Next == MoveSources \/ ChangeDir \/ Respell \/ Redirect \/ Regenerate \/ Reorder \/ ChangeEnv \/ Repeat
        \/ (c.rep = 1 /\ c.root = "r1" /\ c.cwd = "src" /\ c.spell = "rel" /\ c.o = "rel" /\ c.pre = "fresh" /\ c.order = "asc" /\ c.env = "plain" /\ SameProcess)
Spec == Init /\ [][Next]_vars
\* the property: the output is a function of program and options alone
Functional == out = Gen
\* every reachable circumstance is handed to the harness (all are compared through the common initial one)
Emit == PrintT("CFG " \o ToJson(c))
=============================================================================
