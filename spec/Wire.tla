-------------------------------- MODULE Wire --------------------------------
(***************************************************************************)
(* The frugal v0 header layout (documentation/protocol.md, protocol.go):   *)
(*   version byte 0, 4-byte big-endian total size, then for every header   *)
(*   4-byte big-endian name size, name, 4-byte big-endian value size,      *)
(*   value; the Thrift payload follows.  Bytes are naturals 0..255,        *)
(*   strings are sequences of bytes.  Parse is total: it classifies every  *)
(*   byte string as ok (headers, rest) or rejected (why).                  *)
(* TLC integers are 32-bit: size fields are read as signed int32, which is *)
(* also what the Go code does.                                             *)
(***************************************************************************)
EXTENDS Integers, Sequences, FiniteSets, TLC
BE32(n) == << (n \div 16777216) % 256, (n \div 65536) % 256, (n \div 256) % 256, n % 256 >>
I32(s, i) == (IF s[i] >= 128 THEN s[i] - 256 ELSE s[i]) * 16777216 + s[i+1] * 65536 + s[i+2] * 256 + s[i+3]
RECURSIVE Cat(_)
Cat(ss) == IF ss = <<>> THEN <<>> ELSE Head(ss) \o Cat(Tail(ss))
PairBytes(p) == BE32(Len(p[1])) \o p[1] \o BE32(Len(p[2])) \o p[2]
RECURSIVE Sum(_)
Sum(ns) == IF ns = <<>> THEN 0 ELSE Head(ns) + Sum(Tail(ns))
\* pairs: sequence of <<name, value>> in the order written (the order is not part of the contract)
Marshal(pairs) == LET body == Cat([i \in 1..Len(pairs) |-> PairBytes(pairs[i])])
                  IN <<0>> \o BE32(Len(body)) \o body
HeaderSize(pairs) == Sum([i \in 1..Len(pairs) |-> 8 + Len(pairs[i][1]) + Len(pairs[i][2])])
\* Frame = 4-byte size prefix + message
Frame(msg) == BE32(Len(msg)) \o msg
\* size fields come from the wire: they are compared without being added to (no 32-bit overflow)
RECURSIVE Pairs(_, _, _, _)
Pairs(s, i, end, acc) ==       \* i, end are 1-based positions; the region is [i, end); a repeated name: last wins
  IF i >= end THEN [ok |-> TRUE, hdr |-> acc]
  ELSE IF i + 4 > end THEN [ok |-> FALSE, why |-> "name-size-truncated"]
  ELSE LET k == I32(s, i) IN
       IF k < 0 \/ k > end - i - 4 THEN [ok |-> FALSE, why |-> "name"]
       ELSE LET j == i + 4 + k IN
            IF j + 4 > end THEN [ok |-> FALSE, why |-> "value-size-truncated"]
            ELSE LET v == I32(s, j) IN
                 IF v < 0 \/ v > end - j - 4 THEN [ok |-> FALSE, why |-> "value"]
                 ELSE Pairs(s, j + 4 + v, end,
                            [n \in (DOMAIN acc) \cup {SubSeq(s, i + 4, j - 1)} |->
                               IF n = SubSeq(s, i + 4, j - 1) THEN SubSeq(s, j + 4, j + 3 + v) ELSE acc[n]])
EmptyMap == [x \in {} |-> <<>>]
\* an unframed message: headers followed by the payload
Parse(s) ==
  IF Len(s) < 1 THEN [ok |-> FALSE, why |-> "empty"]
  ELSE IF s[1] # 0 THEN [ok |-> FALSE, why |-> "version"]
  ELSE IF Len(s) < 5 THEN [ok |-> FALSE, why |-> "size-truncated"]
  ELSE LET m == I32(s, 2) IN
       IF m < 0 \/ m > Len(s) - 5 THEN [ok |-> FALSE, why |-> "size"]
       ELSE LET r == Pairs(s, 6, 6 + m, EmptyMap) IN
            IF r.ok THEN [ok |-> TRUE, hdr |-> r.hdr, rest |-> SubSeq(s, 6 + m, Len(s))] ELSE r
\* a framed message as the frame-level functions see it (the size prefix must match)
ParseFrame(f) ==
  IF Len(f) < 5 THEN [ok |-> FALSE, why |-> "frame-short"]
  ELSE IF I32(f, 1) # Len(f) - 4 THEN [ok |-> FALSE, why |-> "frame-size"]
  ELSE Parse(SubSeq(f, 5, Len(f)))
\* the map a pair list denotes (last value of a repeated name)
ToMap(ps) == [n \in {ps[i][1] : i \in 1..Len(ps)} |->
                ps[CHOOSE i \in 1..Len(ps) : ps[i][1] = n /\ \A j \in (i+1)..Len(ps) : ps[j][1] # n][2]]
\* addHeadersToFrame: merge (new wins), re-marshal, payload untouched, frame size recomputed; result up to pair order
AddHeaders(f, extra) ==
  LET p == ParseFrame(f) IN
  IF ~p.ok THEN p
  ELSE [ok |-> TRUE,
        hdr |-> [n \in DOMAIN p.hdr \cup DOMAIN extra |-> IF n \in DOMAIN extra THEN extra[n] ELSE p.hdr[n]],
        rest |-> p.rest]
=============================================================================
