SPECIFICATION Spec
CONSTANTS MaxGen = 3 MaxAttempts = 2 InitialWait = 1 MaxWait = 3 WithMonitor = FALSE CloseSignal = "pergen+id" Sequential = TRUE AllowCloseFail = FALSE
INVARIANTS FailureDetected OpenHasReader OneCause ClosedHasCause CauseNilIffClean NoSpuriousClose AttemptsBounded WaitBounded MonitorToldEveryClose QuietMatch
PROPERTIES CloseReturns
CHECK_DEADLOCK FALSE
