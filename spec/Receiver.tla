------------------------------- MODULE Receiver -------------------------------
(***************************************************************************)
(* C05: what any receiving entry point may do with a byte sequence.         *)
(* A receiver is message-oriented (NATS client inbox, NATS server worker,   *)
(* NATS / STOMP subscriber, HTTP handler, HTTP client, function-level       *)
(* parsers) or connection-oriented (adapter read loop, simple server        *)
(* connection).  Inputs are classified by Wire!Parse as good or bad.        *)
(* States "crashed" and "wedged" exist only to be unreachable.              *)
(***************************************************************************)
EXTENDS Integers, Sequences, TLC, Json
Kinds == {"message", "connection"}
VARIABLES kind, st, cause, served
vars == <<kind, st, cause, served>>
Init == kind \in Kinds /\ st = "serving" /\ cause = "none" /\ served = 0
\* a well-formed message is handled
Good == st = "serving" /\ served' = served + 1 /\ UNCHANGED <<kind, st, cause>>
\* a malformed message is handled or rejected with an error; the receiver keeps serving ...
BadRejected == st = "serving" /\ UNCHANGED vars
\* ... except that a connection-oriented receiver may close that one connection and report why
BadCloses == st = "serving" /\ kind = "connection" /\ st' = "closed" /\ cause' = "err" /\ UNCHANGED <<kind, served>>
Next == Good \/ BadRejected \/ BadCloses
Spec == Init /\ [][Next]_vars
NeverCrashedOrWedged == st \in {"serving", "closed"}
MessageReceiversKeepServing == kind = "message" => st = "serving"
ClosedHasCause == st = "closed" => cause = "err"
Bound == served < 3
=============================================================================
