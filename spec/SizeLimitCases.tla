---------------------------- MODULE SizeLimitCases ----------------------------
(* C12 buffer-level cases: every message of <= MaxWrites primitive writes over  *)
(* Sizes, for every limit in Limits, with the outcome SizeLimit forces.         *)
EXTENDS Integers, Sequences, FiniteSets, TLC, SequencesExt, Json
CONSTANTS Sizes, MaxWrites, Limits
S(l) == INSTANCE SizeLimit WITH L <- l, Broker <- 0, Covers <- "all", m <- 0
Cases == UNION { { S(l)!Case(msg) : msg \in S(l)!Msgs } : l \in Limits }
ASSUME JsonSerialize("sizelimit_cases.json", SetToSeq(Cases))
ASSUME PrintT("CASES " \o ToString(Cardinality(Cases)))
VARIABLE x
Spec == x = 0 /\ [][FALSE]_x
=============================================================================
