-------------------------- MODULE AdapterLifeTrace --------------------------
(***************************************************************************)
(* Trace validation for AdapterLife (C15): free-running scenarios of the   *)
(* real adapter transport - a user thread calling Open / Close, stream     *)
(* faults, the read loops scheduled as the Go runtime pleases - recorded   *)
(* through the life.* hooks.  Every hook fires at the linearisation point  *)
(* of one action of AdapterLife (under f.mu where the action is a critical *)
(* section) and carries the generation it belongs to; the driver adds the  *)
(* faults (logged before they take effect) and the results of the calls   *)
(* (logged after the return).  Steps without a hook - the push of the      *)
(* close token, the underlying Close and its failure, the read loop running *)
(* into an undecodable frame or looking at its close signal (the hooks     *)
(* after that select only report what it found) - are silent steps, at     *)
(* most three between two events.  Scenarios are concatenated with "reset".           *)
(* Deviation from AdapterLife, deliberate: the environment may end the     *)
(* stream while the current read loop has not reached its first read       *)
(* (FaultT); AdapterLife!Fault waits for the loop to be reading.           *)
(***************************************************************************)
EXTENDS AdapterLife, Json, TLCExt
TraceLog == ndJsonDeserialize("life_trace.ndjson")
VARIABLES l, sil
tvars == <<vars, l, sil>>
TInit == Init /\ l = 1 /\ sil = 0
Ev(e) == l <= Len(TraceLog) /\ TraceLog[l].ev = e
G == TraceLog[l].g
Adv == l' = l + 1 /\ sil' = 0
Who == IF G = 0 THEN USER ELSE G
\* close(): would this caller go on to close the transport, or leave with NOT_OPEN?
WillClose(p) == isOpen /\ ~(CloseSignal = "pergen+id" /\ p # USER /\ p # gen)

TOpen == Ev("open") /\ G = gen + 1 /\ ~isOpen /\ UOpen /\ Adv
TRLStart == Ev("rl.start") /\ RLStart(G) /\ Adv
TRLErr == Ev("rl.err") /\ RLErr(G) /\ Adv
\* the look at the close signal (RLCheck, a select) is not atomic with the hook that reports its outcome: the select is a silent
\* step somewhere between rl.err and the report, the report only states what the loop found
TRLSignalled == Ev("rl.signalled") /\ rl[G] = "exited" /\ UNCHANGED vars /\ Adv
TRLClosing == Ev("rl.closing") /\ rl[G] = "willclose" /\ UNCHANGED vars /\ Adv
\* close.enter is logged right after f.mu was taken: if the caller is going to close, this is CloseEnter; if it is going to leave
\* with NOT_OPEN the state changes at close.notopen (nothing can happen in between, the lock is held)
TCloseEnter == /\ Ev("close.enter") /\ pc[Who] = "out" /\ mu = FREE
               /\ IF WillClose(Who)
                    THEN IF Who = USER THEN UClose \/ UCloseFail ELSE RLClose(Who)
                    ELSE UNCHANGED vars /\ (Who # USER => rl[Who] = "willclose")
               /\ Adv
TCloseNotOpen == /\ Ev("close.notopen") /\ ~WillClose(Who)
                 /\ IF Who = USER THEN UClose ELSE RLClose(Who)
                 /\ Adv
TCloseDone == Ev("close.done") /\ CloseDone(Who) /\ Adv
\* the stream ends / breaks / carries an undecodable frame
FaultT(g, kind) ==
  /\ rl[g] \in {"started", "reading"} /\ fault[g] = "none" /\ g = gen /\ under = "open" /\ isOpen
  /\ fault' = [fault EXCEPT ![g] = kind] /\ failsLeft' = 0 /\ abs' = L!AbsFault(abs, kind, 0)
  /\ UNCHANGED <<isOpen, gen, mu, tokS, tokG, under, rl, pend, pc, closeCh, userRes, spurious, closes, monSig, mon, attempts, wait, mlog, told, closeFails>>
\* (a fault injected when the transport has meanwhile closed itself has no effect on any loop)
TFault == /\ Ev("fault")
          /\ IF G = gen /\ isOpen /\ under = "open" /\ fault[G] = "none" /\ rl[G] \in {"started", "reading"}
               THEN FaultT(G, TraceLog[l].k) ELSE UNCHANGED vars
          /\ Adv
\* results of the user's calls: g = 0 ok, 1 ALREADY_OPEN / NOT_OPEN, 2 error of the underlying transport
TOpenRet == /\ Ev("openret")
            /\ (G = 0 => userRes = "ok")
            /\ UNCHANGED vars /\ Adv
TCloseRet == /\ Ev("closeret")
             /\ userRes = (CASE G = 0 -> "closed" [] G = 1 -> "NOT_OPEN" [] OTHER -> "closeerr")
             /\ pc[USER] = "out"
             /\ UNCHANGED vars /\ Adv
\* end of a scenario (the driver waited until no event had arrived for a while): nobody is inside close(), and no read loop
\* is between its failed read and the close() or return that must follow
TReset == /\ Ev("reset") /\ mu = FREE /\ (\A p \in Closers : pc[p] = "out") /\ (\A g \in Gens : rl[g] \notin {"goterr", "willclose"})
          /\ isOpen' = FALSE /\ gen' = 0 /\ mu' = FREE /\ tokS' = 0 /\ tokG' = [g \in Gens |-> 0]
          /\ under' = "closed" /\ fault' = [g \in Gens |-> "none"] /\ rl' = [g \in Gens |-> "none"]
          /\ pend' = [g \in Gens |-> FALSE] /\ pc' = [p \in Closers |-> "out"] /\ closeCh' = [g \in Gens |-> <<>>]
          /\ userRes' = "none" /\ spurious' = FALSE /\ monSig' = <<>> /\ mon' = "done" /\ attempts' = 0 /\ wait' = 0
          /\ mlog' = <<>> /\ told' = 0 /\ closes' = 0 /\ failsLeft' = 0 /\ closeFails' = FALSE /\ abs' = L!AbsInit
          /\ Adv
TSilent == /\ sil < 3 /\ sil' = sil + 1 /\ l' = l
           /\ \/ \E p \in Closers : ClosePush(p) \/ CloseUnder(p) \/ CloseFail(p)
              \/ \E g \in Gens : RLBad(g) \/ RLCheck(g)
TNext == TOpen \/ TRLStart \/ TRLErr \/ TRLSignalled \/ TRLClosing \/ TCloseEnter \/ TCloseNotOpen \/ TCloseDone
         \/ TFault \/ TOpenRet \/ TCloseRet \/ TReset \/ TSilent
TSpec == TInit /\ [][TNext]_tvars
HighWater == TLCSet(1, IF l > TLCGet(1) THEN l ELSE TLCGet(1))
Accepted == IF TLCGet(1) = Len(TraceLog) + 1 THEN TRUE ELSE PrintT("REJECTED-AT " \o ToString(TLCGet(1))) /\ FALSE
ASSUME TLCSet(1, 0)
\* safety along the recorded behaviours (the quiescence-only invariants of AdapterLife need Quiet, which a trace rarely shows)
TraceOneCause == OneCause
TraceNoSpurious == NoSpuriousClose
TraceCauseKind == CauseNilIffClean
=============================================================================
