------------------------------- MODULE PubSub -------------------------------
(***************************************************************************)
(* Scope subscriber of the Go runtime: nats_scope_transport.go             *)
(* (subscription callback -> workC -> W workers) and stomp_transport.go    *)
(* (one loop, ack iff the callback succeeded), with the generated          *)
(* recv<Op> callback (ReadRequestHeader, op-name check, payload read,      *)
(* handler).  The environment publishes messages of five kinds, in order;  *)
(* the user may Unsubscribe at any point.                                  *)
(***************************************************************************)
EXTENDS Integers, Sequences, FiniteSets, TLC
CONSTANTS N,            \* number of messages the environment may publish (ids 1..N, in order)
          Workers,      \* worker ids ({1} for STOMP)
          QLen,         \* capacity of workC
          OnShort,      \* "skip" (continue) | "exit" (the worker returns: named deviation)
          AllowUnsub    \* whether Unsubscribe may happen
Kinds == {"ok", "short", "badhdr", "wrongop", "foreign"}
VARIABLES nextId, kind,        \* kind[id] chosen at publish time
          interest,            \* the broker routes the topic to this subscriber
          pending,             \* nats.go pending list of the subscription
          cb,                  \* subscription callback goroutine: 0 or the message it is pushing into workC
          workC, quit,         \* quit = TRUE once quitC is closed
          wk,                  \* worker -> 0 idle | id handling | -1 exited
          delivered,           \* ids handed to the user's handler, in start order
          acked,               \* STOMP: ids acknowledged to the broker
          unsubRet,            \* Unsubscribe returned
          late                 \* ids published after Unsubscribe returned
vars == <<nextId, kind, interest, pending, cb, workC, quit, wk, delivered, acked, unsubRet, late>>
Ids == 1..N
Init == /\ nextId = 1 /\ kind = [i \in Ids |-> "ok"] /\ interest = TRUE /\ pending = <<>> /\ cb = 0
        /\ workC = <<>> /\ quit = FALSE /\ wk = [w \in Workers |-> 0] /\ delivered = <<>> /\ acked = {}
        /\ unsubRet = FALSE /\ late = {}
\* the broker routes by exact topic: a foreign-topic message never reaches this subscription
Publish(k) == /\ nextId <= N
              /\ kind' = [kind EXCEPT ![nextId] = k]
              /\ nextId' = nextId + 1
              /\ pending' = IF interest /\ k # "foreign" THEN Append(pending, nextId) ELSE pending
              /\ late' = IF unsubRet THEN late \cup {nextId} ELSE late
              /\ UNCHANGED <<interest, cb, workC, quit, wk, delivered, acked, unsubRet>>
CbTake == /\ cb = 0 /\ pending # <<>> /\ cb' = Head(pending) /\ pending' = Tail(pending)
          /\ UNCHANGED <<nextId, kind, interest, workC, quit, wk, delivered, acked, unsubRet, late>>
CbPush == /\ cb > 0 /\ Len(workC) < QLen /\ workC' = Append(workC, cb) /\ cb' = 0
          /\ UNCHANGED <<nextId, kind, interest, pending, quit, wk, delivered, acked, unsubRet, late>>
\* worker: select { case <-quitC: return ; case msg := <-workC: ... } - either when both are ready
WQuit(w) == /\ wk[w] = 0 /\ quit /\ wk' = [wk EXCEPT ![w] = -1]
            /\ UNCHANGED <<nextId, kind, interest, pending, cb, workC, quit, delivered, acked, unsubRet, late>>
WTake(w) == /\ wk[w] = 0 /\ workC # <<>>
            /\ wk' = [wk EXCEPT ![w] = Head(workC)] /\ workC' = Tail(workC)
            /\ UNCHANGED <<nextId, kind, interest, pending, cb, quit, delivered, acked, unsubRet, late>>
\* length check, then the generated callback: header, op name, payload, handler
WHandle(w) == /\ wk[w] > 0
              /\ LET m == wk[w]  k == kind[m] IN
                 /\ delivered' = IF k = "ok" THEN Append(delivered, m) ELSE delivered
                 /\ acked' = IF k = "ok" THEN acked \cup {m} ELSE acked
                 /\ wk' = [wk EXCEPT ![w] = IF k = "short" /\ OnShort = "exit" THEN -1 ELSE 0]
              /\ UNCHANGED <<nextId, kind, interest, pending, cb, workC, quit, unsubRet, late>>
\* Unsubscribe: sub.Unsubscribe() (interest and the client-side pending list go away), close(quitC), return
Unsub == /\ AllowUnsub /\ ~unsubRet
         /\ interest' = FALSE /\ pending' = <<>> /\ quit' = TRUE /\ unsubRet' = TRUE
         /\ UNCHANGED <<nextId, kind, cb, workC, wk, delivered, acked, late>>
\* SubscribeAgain: the transport is asked to subscribe to another topic while it is subscribed.  It carries one subscription: the
\* call is rejected and is inert - in particular it creates no interest in the other topic, whose messages are "foreign" and
\* stay so (OnlyOk).  (The drivers make the call, publish on both topics and watch the first topic's callback.)
SubscribeAgain == interest /\ ~unsubRet /\ UNCHANGED vars
Sys == CbTake \/ CbPush \/ \E w \in Workers : WQuit(w) \/ WTake(w) \/ WHandle(w)
Next == (\E k \in Kinds : Publish(k)) \/ Unsub \/ SubscribeAgain \/ Sys
Spec == Init /\ [][Next]_vars /\ WF_vars(Sys)
\* ---------------- C07 ----------------
InSeq(s, x) == \E i \in 1..Len(s) : s[i] = x
AtMostOnce == \A i, j \in 1..Len(delivered) : i # j => delivered[i] # delivered[j]
OnlyOk == \A i \in 1..Len(delivered) : kind[delivered[i]] = "ok"            \* malformed / wrong-op / foreign never delivered
InOrder == Cardinality(Workers) = 1 => \A i, j \in 1..Len(delivered) : i < j => delivered[i] < delivered[j]
NoLate == \A m \in late : ~InSeq(delivered, m)
AckIffDelivered == acked = {delivered[i] : i \in 1..Len(delivered)}
\* every well-formed message published while subscribed reaches the handler, whatever preceded it (BadIsolated)
Eventually == \A m \in Ids : [](( m < nextId /\ kind[m] = "ok" /\ ~unsubRet /\ ~AllowUnsub) => <>InSeq(delivered, m))
=============================================================================
