------------------------------ MODULE WireBytes ------------------------------
(* C05 case generator: byte strings a peer can deliver, built structurally     *)
(* around the v0 layout - version byte x headers-size field x pair shapes with *)
(* name / value size fields from {exact, exact-1, exact+1, 0, 2^16, 2^24,      *)
(* 2^31-1, 2^31, 2^32-1} x truncation at every length - plus every string of   *)
(* length <= MaxSmall over a small alphabet.  Each case carries the class the  *)
(* specification's total parser assigns to it.                                 *)
EXTENDS Wire, SequencesExt, FiniteSetsExt, Json
CONSTANTS Scope,      \* "quick" | "thorough"
          MaxSmall
Big == IF Scope = "quick" THEN { <<127,255,255,255>>, <<128,0,0,0>>, <<255,255,255,255>> }
       ELSE { <<127,255,255,255>>, <<128,0,0,0>>, <<255,255,255,255>>, <<0,1,0,0>>, <<1,0,0,0>>, <<255,255,255,252>> }
SizeQ(n) == {BE32(n), BE32(n + 1), BE32(0)} \cup (IF n > 0 THEN {BE32(n - 1)} ELSE {}) \cup Big
OpID == <<95, 111, 112, 105, 100>>
NV == IF Scope = "quick" THEN { <<OpID, <<55>>>> } ELSE { <<OpID, <<55>>>>, <<<<97>>, <<>>>>, <<OpID, <<120>>>> }
BodiesOf(p) == { nq \o p[1] \o vq \o p[2] : nq \in SizeQ(Len(p[1])), vq \in SizeQ(Len(p[2])) }
Bodies == {<<>>} \cup UNION { BodiesOf(p) : p \in NV }
Payloads == { <<>>, <<128, 1, 0, 2, 255>> }
Versions == {0, 1, 255}
MsgsOf(b) == { <<v>> \o sq \o b \o pl : v \in Versions, pl \in Payloads,
                                       sq \in SizeQ(Len(b)) \cup {BE32(1), BE32(3), BE32(4), BE32(8)} }
Msgs == UNION { MsgsOf(b) : b \in Bodies }
Truncs(m) == { SubSeq(m, 1, k) : k \in 0..Len(m) }
Structured == UNION { Truncs(m) : m \in Msgs }
Alphabet == {0, 1, 4, 127, 128, 255}
RECURSIVE Strings(_)
Strings(n) == IF n = 0 THEN {<<>>} ELSE LET S == Strings(n - 1) IN S \cup { Append(s, c) : s \in {t \in S : Len(t) = n - 1}, c \in Alphabet }
All == Structured \cup Strings(MaxSmall)
Digits(s) == Len(s) > 0 /\ \A i \in 1..Len(s) : s[i] \in 48..57
Case(s) == LET p == Parse(s) IN
           [bytes |-> s, ok |-> p.ok, why |-> IF p.ok THEN "" ELSE p.why,
            opid |-> p.ok /\ OpID \in DOMAIN p.hdr /\ Digits(p.hdr[OpID])]
\* sanity of the generator itself: the parser is total on every case and every well-formed message is in the set
ASSUME \A s \in All : Parse(s).ok \in BOOLEAN
ASSUME \E s \in All : Parse(s).ok /\ Parse(s).rest # <<>>
ASSUME JsonSerialize("wire_bytes.json", SetToSeq({Case(s) : s \in All}))
\* messages too long to be spelled out byte by byte: well-formed headers followed by a call of a method nobody registered whose
\* NAME has n bytes (the UNKNOWN_METHOD reply echoes the name, so the reply outgrows a server's reply buffer long before the
\* request outgrows the broker's message limit), and a ping whose string argument has n bytes.  Wire!Parse accepts all of them;
\* the drivers build the bytes with the real protocol.
LongCases == {[kind |-> "unknown-method", n |-> n] : n \in {0, 300, 70000, 600000}} \cup {[kind |-> "ping-argument", n |-> n] : n \in {70000, 1000000}}
ASSUME JsonSerialize("wire_long.json", SetToSeq(LongCases))
ASSUME PrintT("CASES " \o ToString(Cardinality(All)))
VARIABLE x
Spec == x = 0 /\ [][FALSE]_x
=============================================================================
