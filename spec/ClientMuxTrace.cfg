SPECIFICATION TSpec
CONSTANTS Callers = {1,2,3,4,5,6,7,8,9,10,11,12,13,14,15,16} Unknown = {} MaxFrames = 1000000 Cap = 1 Dispatch = "nonblocking" Variant = "nats"
INVARIANTS Correlated ChannelOwn RegisteredIffInFlight
CONSTRAINT HighWater
POSTCONDITION Accepted
CHECK_DEADLOCK FALSE
