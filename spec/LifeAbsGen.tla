----------------------------- MODULE LifeAbsGen -----------------------------
(* Emits every history of LifeAbs of length Depth (exhaustive) or random     *)
(* walks (-simulate) as JSON: each step with the user-visible state the      *)
(* real transport must project onto once quiescent.                          *)
EXTENDS LifeAbs, Json
CONSTANT Depth
VARIABLE hist
Post(s) == [open |-> s.open, gen |-> s.gen, cause |-> s.cause, alive |-> s.alive, log |-> s.log, res |-> s.res]
Step(op, kind, k, s) == [op |-> op, kind |-> kind, k |-> k, post |-> Post(s)]
GInit == AInit /\ hist = <<>>
GNext == /\ Len(hist) < Depth
         /\ \/ a.gen < MaxGen /\ a' = AbsOpen(a) /\ hist' = Append(hist, Step("open", "", 0, a'))
            \/ ~a.open /\ a' = AbsOpenFail(a) /\ hist' = Append(hist, Step("openfail", "", 0, a'))
            \/ a' = AbsClose(a) /\ hist' = Append(hist, Step("close", "", 0, a'))
            \/ a' = AbsCloseFail(a) /\ hist' = Append(hist, Step("closefail", "", 0, a'))
            \/ \E kind \in Kinds, k \in 0..MaxAttempts :
                  /\ a.open /\ (k = 0 \/ (a.alive /\ Cause(kind) = "err"))
                  /\ (a.gen < MaxGen \/ k >= MaxAttempts \/ ~a.alive \/ Cause(kind) = "nil")
                  /\ a' = AbsFault(a, kind, k) /\ hist' = Append(hist, Step("fault", kind, k, a'))
GSpec == GInit /\ [][GNext]_<<a, hist>>
Emit == (Len(hist) = Depth) => PrintT("H " \o ToJson(hist))
=============================================================================
